(* C17 carried through the tree-level models, part 1: the relation, the annotator's tables (Model/Annot.v),
   the assembled diagnostics response (Model/Report.v) and go-to-definition / completion inside one
   document (Model/DefTree.v).  For ALL trees.

   ref_sim t t'   ("t ~ref t'"): the two trees are equal except that REFERENCES may differ in letter case:
                  same kinds, offsets, ranges, children shape and attribute keys; identifiers and token
                  values equal ignoring case (and EQUAL for tokens that are not words); every DECLARING node
                  (class / module header, constant, type, field, procedure, function, parameter, local
                  variable, enum variant, record field) carries the same identifier, the same name token
                  (K_ident) and, for a method, the same name node in both trees.
   ref_sim_iff    ref_sim t t' <-> node_sim t t' /\ decl_exact t t': it IS the parser-level similarity
                  (Proofs/RecaseBase.v, the conclusion of C17_tree_shape) restricted to "declared names
                  spelled the same", so text -> tokens -> trees -> analyses composes (recased_text_ref_sim).

   annot_recase     the tables of the two trees: same for_class_or_module, same symbols_list (names as
                    declared, kinds, selection ranges, ranges), uses_entities pairwise equal ignoring case
   annot_uses_refuted   ... and `equal` is false for uses_entities (they are references, kept as written)
   report_recase    the WHOLE diagnostics response is identical (the naming rules included: they read
                    declarations only), for the same parser diagnostics
   deftree_recase   definition / completion of the one-document model: identical at every position *)
From GoldV Require Import Base Tokens Keywords Lexer AstKinds Tree Recase RecaseBase RecaseOutline.
From GoldV Require Import Encase SymTab SymTabProofs Scoping ScopingProofs Annot AnnotProofs DefTree.
From GoldV Require RecaseLex RecaseSummary RecaseLints RecaseUnusedVar Report ReportProofs UnusedVar Lints.
From Coq Require Import Lia.

(* ====================================================================================== *)
(* 1. the relation                                                                        *)
(* ====================================================================================== *)

Inductive ref_sim : node -> node -> Prop :=
| RefSim k id id' raw rg at_ at' ch ch' :
    ci_eq id id' -> Forall2 attr_sim at_ at' ->
    decl_exact1 (Node k id raw rg at_ ch) (Node k id' raw rg at' ch') ->
    Forall2 ref_sim ch ch' ->
    ref_sim (Node k id raw rg at_ ch) (Node k id' raw rg at' ch').

Notation "t '~ref' u" := (ref_sim t u) (at level 70).

Lemma ref_sim_ind' (Q : node -> node -> Prop) :
  (forall k id id' raw rg at_ at' ch ch',
      ci_eq id id' -> Forall2 attr_sim at_ at' ->
      decl_exact1 (Node k id raw rg at_ ch) (Node k id' raw rg at' ch') ->
      Forall2 ref_sim ch ch' -> Forall2 Q ch ch' ->
      Q (Node k id raw rg at_ ch) (Node k id' raw rg at' ch')) ->
  forall n n', ref_sim n n' -> Q n n'.
Proof.
  intro HQ. fix IH 3. intros n n' H. destruct H as [k id id' raw rg at_ at' ch ch' H1 H2 H3 H4].
  apply HQ; auto. clear H3.
  revert ch ch' H4. fix IHl 3. intros ch ch' H4. destruct H4 as [|x y l l' Hxy Hl]; constructor.
  - apply IH. exact Hxy.
  - apply IHl. exact Hl.
Qed.

Lemma Forall2_mp {A B} (P Q : A -> B -> Prop) l l' :
  Forall2 (fun x y => P x y -> Q x y) l l' -> Forall2 P l l' -> Forall2 Q l l'.
Proof. intro H. induction H; intro H'; inversion H'; subst; constructor; auto. Qed.

Definition nsx := RecaseLints.nsx.
Definition nsx_sim := RecaseLints.nsx_sim.
Definition nsx_children := RecaseLints.nsx_children.

(* the relation IS the parser-level similarity with the declarations left as written *)
Theorem ref_sim_iff n n' : ref_sim n n' <-> node_sim n n' /\ decl_exact n n'.
Proof.
  split.
  - revert n n'. apply ref_sim_ind'. intros k id id' raw rg at_ at' ch ch' H1 H2 H3 _ IH. split.
    + apply NodeSim; [exact H1|exact H2|]. eapply Forall2_impl; [|exact IH]. intros x y [A _]. exact A.
    + constructor; [exact H3|]. cbn [nchildren]. eapply Forall2_impl; [|exact IH]. intros x y [_ A]. exact A.
  - intros [Hs Hd]. revert Hd. revert n n' Hs.
    apply (node_sim_ind' (fun n n' => decl_exact n n' -> ref_sim n n')).
    intros k id id' raw rg at_ at' ch ch' H1 H2 _ IH Hd.
    apply RefSim; [exact H1|exact H2|exact (decl_exact_here _ _ Hd)|].
    apply (Forall2_mp _ _ _ _ IH). exact (decl_exact_children _ _ Hd).
Qed.

Lemma ref_sim_nsx n n' : ref_sim n n' -> nsx n n'.
Proof. intro H. apply ref_sim_iff. exact H. Qed.

Lemma ref_sim_refl n : ref_sim n n.
Proof. apply ref_sim_iff. split; [apply node_sim_refl|apply decl_exact_refl]. Qed.

(* the boolean checkers of Model/Recase.v decide it (used by the examples) *)
Lemma ref_simb_sound n n' : node_simb n n' = true -> decl_exactb n n' = true -> ref_sim n n'.
Proof. intros A B. apply ref_sim_iff. split; [apply node_simb_sound; exact A|apply decl_exactb_sound; exact B]. Qed.

(* the chain from texts: a re-cased text whose declarations are left as written parses to a ~ref tree *)
Theorem recased_text_ref_sim text text' : RecaseLex.text_recased text text' ->
  exists d d', RecaseSummary.document_of text = Some d /\ RecaseSummary.document_of text' = Some d' /\
    RecaseSummary.pd_diags d = RecaseSummary.pd_diags d' /\ RecaseSummary.pd_lexerrs d' = RecaseSummary.pd_lexerrs d /\
    (decl_exact (RecaseSummary.pd_root d) (RecaseSummary.pd_root d') -> ref_sim (RecaseSummary.pd_root d) (RecaseSummary.pd_root d')).
Proof.
  intro H. destruct (RecaseSummary.document_recased text text' H) as (d & d' & E & E' & Hs & Hp & Hl).
  exists d, d'. repeat (split; [assumption|]). intro Hd. apply ref_sim_iff. split; assumption.
Qed.

(* ---------- what the relation gives at one node ---------- *)

Lemma nsx_kind n n' : nsx n n' -> nkind n = nkind n'.
Proof. intro H. apply node_sim_kind. apply nsx_sim. exact H. Qed.
Lemma nsx_range n n' : nsx n n' -> nrange n = nrange n'.
Proof. intro H. apply node_sim_range. apply nsx_sim. exact H. Qed.
Lemma nsx_is_kind k n n' : nsx n n' -> is_kind k n = is_kind k n'.
Proof. intro H. apply node_sim_is_kind. apply nsx_sim. exact H. Qed.
Lemma nsx_ci n n' : nsx n n' -> ci_eq (nident n) (nident n').
Proof. intro H. apply node_sim_ident. apply nsx_sim. exact H. Qed.

Lemma dkind_of_sim n n' : nsx n n' -> dkind_of n = dkind_of n'.
Proof. intro H. unfold dkind_of. rewrite (nsx_kind _ _ H). reflexivity. Qed.

(* a node some handler other than handle_uses acts on declares its identifier *)
Lemma dkind_decl n k : dkind_of n = Some k -> k <> DUses -> decl_kind (nkind n) = true.
Proof. unfold dkind_of. destruct (nkind n); intros H Hk; try discriminate; try reflexivity. inversion H. congruence. Qed.

Lemma nsx_decl_name n n' k : nsx n n' -> dkind_of n = Some k -> k <> DUses -> nident n = nident n'.
Proof. intros H Hk Hu. apply (RecaseLints.nsx_name _ _ H). eapply dkind_decl; eassumption. Qed.

Lemma first_child_range_sim n n' : node_sim n n' ->
  match nchildren n with c :: _ => nrange c | [] => range0 end =
  match nchildren n' with c :: _ => nrange c | [] => range0 end.
Proof.
  intro H. destruct (node_sim_children _ _ H) as [|c c' l l' Hc _]; [reflexivity|]. apply node_sim_range. exact Hc.
Qed.

Lemma tok_range_sim k n n' : node_sim n n' -> tok_range (attr_tok k n) = tok_range (attr_tok k n').
Proof. intro H. destruct (attr_tok_rel k _ _ H) as [|t t' Ht]; [reflexivity|]. cbn [tok_range]. apply Ht. Qed.

Lemma aname_range_sim n n' : nsx n n' -> Annot.name_range n = Annot.name_range n'.
Proof.
  intro H. unfold Annot.name_range. rewrite <- (dkind_of_sim _ _ H).
  pose proof (first_child_range_sim _ _ (nsx_sim _ _ H)) as A. pose proof (tok_range_sim K_ident _ _ (nsx_sim _ _ H)) as B.
  destruct (dkind_of n) as [[]|]; assumption.
Qed.

Lemma sym_of_sim k n n' d : nsx n n' -> dkind_of n = Some d -> d <> DUses -> sym_of k n = sym_of k n'.
Proof.
  intros H Hd Hu. unfold sym_of. rewrite (nsx_decl_name _ _ _ H Hd Hu), (aname_range_sim _ _ H), (nsx_range _ _ H). reflexivity.
Qed.

Lemma self_of_sim n n' : nsx n n' -> self_of n = self_of n'.
Proof. intro H. unfold self_of. rewrite (aname_range_sim _ _ H), (nsx_range _ _ H). reflexivity. Qed.

Lemma uses_names_sim n n' : node_sim n n' -> Forall2 ci_eq (uses_names n) (uses_names n').
Proof.
  intro H. unfold uses_names. pose proof (attr_sim_lookup K_uses _ _ (node_sim_attrs _ _ H)) as L.
  destruct (attr K_uses (nattrs n)) as [v|], (attr K_uses (nattrs n')) as [v'|]; try contradiction; [|constructor].
  destruct L as [x|s s' Hs|t t' Ht|l l' Hl]; try constructor.
  - apply Ht.
  - constructor.
  - induction Hl as [|t t' l l' Ht _ IH]; cbn [map]; constructor; [apply Ht|exact IH].
Qed.

(* ====================================================================================== *)
(* 2. the annotator's tables                                                              *)
(* ====================================================================================== *)

Definition table_sim (T T' : table) : Prop :=
  t_cls T = t_cls T' /\ t_syms T = t_syms T' /\ Forall2 ci_eq (t_uses T) (t_uses T').

Lemma table_sim_refl T : table_sim T T.
Proof. repeat split. apply Forall2_refl. apply ci_eq_refl. Qed.

Definition state_sim (s s' : astate) : Prop :=
  table_sim (st_root s) (st_root s') /\ opt_rel table_sim (st_cur s) (st_cur s') /\
  Forall2 table_sim (st_done s) (st_done s').

Definition vsim (p p' : vnode) : Prop := fst p = fst p' /\ nsx (snd p) (snd p').

Lemma t_insert_sim T T' s : table_sim T T' -> table_sim (t_insert T s) (t_insert T' s).
Proof. intros (A & B & C). unfold t_insert. repeat split; cbn [t_cls t_syms t_uses]; [exact A|rewrite B; reflexivity|exact C]. Qed.

Lemma t_add_uses_sim T T' u u' : table_sim T T' -> Forall2 ci_eq u u' -> table_sim (t_add_uses T u) (t_add_uses T' u').
Proof. intros (A & B & C) Hu. unfold t_add_uses. repeat split; cbn [t_cls t_syms t_uses]; [exact A|exact B|apply Forall2_app2; assumption]. Qed.

Ltac ssplit := split; [|split]; cbn [st_root st_cur st_done].

Lemma cur_insert_sim st st' s : state_sim st st' -> state_sim (cur_insert st s) (cur_insert st' s).
Proof.
  intros (A & B & C). unfold cur_insert. destruct B as [|c c' Hc]; ssplit; auto.
  - apply t_insert_sim; exact A.
  - constructor.
  - constructor. apply t_insert_sim. exact Hc.
Qed.

Lemma cur_add_uses_sim st st' u u' : state_sim st st' -> Forall2 ci_eq u u' -> state_sim (cur_add_uses st u) (cur_add_uses st' u').
Proof.
  intros (A & B & C) Hu. unfold cur_add_uses. destruct B as [|c c' Hc]; ssplit; auto.
  - apply t_add_uses_sim; assumption.
  - constructor.
  - constructor. apply t_add_uses_sim; assumption.
Qed.

Lemma root_set_cls_sim st st' c : state_sim st st' -> state_sim (root_set_cls st c) (root_set_cls st' c).
Proof.
  intros ((A1 & A2 & A3) & B & C). unfold root_set_cls, t_set_cls. ssplit; auto.
  split; [|split]; cbn [t_cls t_syms t_uses]; auto.
Qed.

Lemma end_method_sim st st' : state_sim st st' -> state_sim (end_method st) (end_method st').
Proof.
  intros (A & B & C). unfold end_method. inversion B as [E1 E2|c c' Hc E1 E2]; [ssplit; auto; rewrite <- E1, <- E2; exact B|].
  ssplit; auto; [constructor|]. apply Forall2_app2; [exact C|]. constructor; [exact Hc|constructor].
Qed.

Lemma new_scope_sim st st' : state_sim st st' -> state_sim (new_scope st) (new_scope st').
Proof.
  intros (A & B & C). unfold new_scope. ssplit; auto.
  constructor. destruct A as (A1 & A2 & A3). split; [|split]; cbn [t_cls t_syms t_uses]; auto.
Qed.

Lemma dkind_at_sim p p' : vsim p p' -> dkind_at p = dkind_at p'.
Proof. intros [A B]. unfold dkind_at. rewrite <- (dkind_of_sim _ _ B), A. reflexivity. Qed.

Lemma dkind_at_of p k : dkind_at p = Some k -> dkind_of (snd p) = Some k.
Proof. unfold dkind_at. destruct (dkind_of (snd p)) as [[]|]; try (intro H; exact H). destruct (fst p); [auto|discriminate]. Qed.

Lemma visit_sim st st' p p' : state_sim st st' -> vsim p p' -> state_sim (visit st p) (visit st' p').
Proof.
  intros Hst Hp. unfold visit. cbv zeta. rewrite <- (dkind_at_sim _ _ Hp). destruct Hp as [_ Hn].
  destruct (dkind_at p) as [k|] eqn:E; [|exact Hst]. apply dkind_at_of in E.
  destruct k;
    try rewrite <- (sym_of_sim _ _ _ _ Hn E ltac:(discriminate));
    try rewrite <- (self_of_sim _ _ Hn);
    try rewrite <- (nsx_decl_name _ _ _ Hn E ltac:(discriminate));
    auto using cur_insert_sim, root_set_cls_sim, new_scope_sim, end_method_sim.
  apply cur_add_uses_sim; [exact Hst|]. apply uses_names_sim. apply nsx_sim. exact Hn.
Qed.

Lemma fold_visit_sim l l' : Forall2 vsim l l' -> forall st st', state_sim st st' ->
  state_sim (fold_left visit l st) (fold_left visit l' st').
Proof. induction 1 as [|p p' l l' Hp _ IH]; intros st st' Hst; cbn [fold_left]; [exact Hst|]. apply IH. apply visit_sim; assumption. Qed.

(* ---------- the walk ---------- *)

Lemma post_eq gm pm n :
  post gm pm n = flat_map (post pm (is_method_kind (nkind n))) (nchildren n) ++ [(gm, n)].
Proof.
  destruct n as [k id raw rg at_ ch]. cbn [post nchildren nkind]. f_equal.
Qed.

Lemma Forall2_flat_map {A B} (R : A -> A -> Prop) (S : B -> B -> Prop) (f f' : A -> list B) l l' :
  Forall2 (fun x y => Forall2 S (f x) (f' y)) l l' -> Forall2 S (flat_map f l) (flat_map f' l').
Proof. induction 1; cbn [flat_map]; [constructor|]. apply Forall2_app2; assumption. Qed.

Lemma post_sim : forall n n', nsx n n' -> forall gm pm, Forall2 vsim (post gm pm n) (post gm pm n').
Proof.
  intro n. pattern n. apply node_ind'. clear n. intros k id raw rg at_ ch IHn n' Hn gm pm.
  rewrite !post_eq. pose proof (nsx_children _ _ Hn) as HC. rewrite <- (nsx_kind _ _ Hn).
  apply Forall2_app2; [|constructor; [split; [reflexivity|exact Hn]|constructor]].
  cbn [nchildren nkind] in *. apply (Forall2_flat_map nsx). clear Hn.
  induction HC as [|c c' l l' Hc _ IH]; [constructor|]. inversion IHn; subst. constructor; auto.
Qed.

Lemma post_list_sim l l' gm pm : Forall2 nsx l l' -> Forall2 vsim (post_list gm pm l) (post_list gm pm l').
Proof.
  intro H. unfold post_list. apply (Forall2_flat_map nsx). eapply Forall2_impl; [|exact H].
  intros x y Hxy. apply post_sim. exact Hxy.
Qed.

Lemma below_sim t t' c c' : nsx t t' -> nsx c c' -> Forall2 vsim (below t c) (below t' c').
Proof.
  intros Ht Hc. unfold below. rewrite <- (nsx_kind _ _ Ht), <- (nsx_kind _ _ Hc). apply post_list_sim. apply nsx_children. exact Hc.
Qed.

Lemma top_seq_sim d t t' c c' : nsx t t' -> nsx c c' -> Forall2 vsim (top_seq d t c) (top_seq d t' c').
Proof.
  intros Ht Hc. unfold top_seq. constructor; [split; [reflexivity|exact Hc]|]. destruct d; [constructor|apply below_sim; assumption].
Qed.

Lemma visit_seq_sim d t t' : nsx t t' -> Forall2 vsim (visit_seq d t) (visit_seq d t').
Proof.
  intro Ht. unfold visit_seq. constructor; [split; [reflexivity|exact Ht]|].
  apply (Forall2_flat_map nsx). eapply Forall2_impl; [|apply nsx_children; exact Ht].
  intros c c' Hc. apply top_seq_sim; assumption.
Qed.

Lemma annotate_sim d t t' : nsx t t' -> state_sim (annotate d t) (annotate d t').
Proof.
  intro H. unfold annotate. apply end_method_sim. apply fold_visit_sim; [apply visit_seq_sim; exact H|].
  unfold init_state. ssplit; [apply table_sim_refl|constructor|constructor].
Qed.

(* ANNOT: the tables of the two trees, one by one: same class, same symbols (the declared names, their kinds,
   selection ranges and ranges), `uses` entities pairwise equal ignoring case *)
Theorem annot_recase d t t' : ref_sim t t' -> Forall2 table_sim (tables_of d t) (tables_of d t').
Proof.
  intro H. destruct (annotate_sim d t t' (ref_sim_nsx _ _ H)) as (A & _ & C). constructor; assumption.
Qed.

Corollary annot_recase_syms d t t' : ref_sim t t' ->
  map t_cls (tables_of d t) = map t_cls (tables_of d t') /\ map t_syms (tables_of d t) = map t_syms (tables_of d t').
Proof.
  intro H. pose proof (annot_recase d t t' H) as A. split; apply Forall2_map_eq; (eapply Forall2_impl; [|exact A]); intros x y (H1 & H2 & _); assumption.
Qed.

Lemma root_table_sim d t t' : nsx t t' -> table_sim (root_table_of d t) (root_table_of d t').
Proof. intro H. apply (annotate_sim d t t' H). Qed.

Lemma method_tables_sim d t t' : nsx t t' -> Forall2 table_sim (method_tables_of d t) (method_tables_of d t').
Proof. intro H. apply (annotate_sim d t t' H). Qed.

(* ====================================================================================== *)
(* 3. the diagnostics response                                                            *)
(* ====================================================================================== *)

Lemma v2_visit_sim c c' anc anc' n n' out : RecaseLints.ctx_rel nsx c c' -> Forall2 nsx anc anc' -> nsx n n' ->
  Report.v2_visit c anc n out = Report.v2_visit c' anc' n' out.
Proof.
  intros Hc Ha Hn. unfold Report.v2_visit.
  assert (E1 : Lints.unp_visit c anc n out = Lints.unp_visit c' anc' n' out).
  { apply Forall2_eq. eapply Forall2_impl; [apply RecaseLints.ldiag_rel_eq|].
    apply (RecaseLints.unp_visit_rel eq RecaseLints.nsx RecaseLints.nsx_sim RecaseLints.nsx_children RecaseLints.nsx_name);
      [exact Hn|]. apply Forall2_refl. intro x. repeat split. }
  rewrite E1. rewrite (RecaseLints.name_visit_exact n n' Hn c c' anc anc' _ Ha).
  apply Forall2_eq. eapply Forall2_impl; [apply RecaseLints.ldiag_rel_eq|].
  apply (RecaseLints.inh_visit_rel eq RecaseLints.nsx RecaseLints.nsx_sim RecaseLints.nsx_name); [exact Hn|].
  apply Forall2_refl. intro x. repeat split.
Qed.

Lemma v2_walk_sim t t' : nsx t t' -> Report.v2_walk t = Report.v2_walk t'.
Proof.
  intro H. unfold Report.v2_walk.
  apply (RecaseLints.run2_rel eq RecaseLints.nsx Report.v2_visit RecaseLints.nsx_sim RecaseLints.nsx_children).
  - intros c c' anc anc' n n' s s' Hc Ha Hn ->. apply v2_visit_sim; assumption.
  - auto.
  - exact H.
  - reflexivity.
Qed.

(* REPORT: the whole response -- parser items, unused variables, return types, and the shared collector of the
   three tree checkers in its interleaved order -- is identical; so is every later request on the document *)
Theorem report_recase t t' pd : ref_sim t t' -> Report.report t pd = Report.report t' pd.
Proof.
  intro H. apply ref_sim_iff in H. destruct H as [Hs Hd]. unfold Report.report, Report.v1_report.
  rewrite (RecaseUnusedVar.unusedvar_exact _ _ Hs Hd), (RecaseLints.ret_type_lint_eq _ _ Hs),
          (v2_walk_sim t t' (conj Hs Hd)). reflexivity.
Qed.

(* ====================================================================================== *)
(* 4. one document: go-to-definition and completion (Model/DefTree.v)                     *)
(* ====================================================================================== *)

(* ---------- list helpers ---------- *)

Lemma forallb_rel {A B} (R : A -> B -> Prop) (f : A -> bool) (g : B -> bool) l l' :
  Forall2 R l l' -> (forall x y, R x y -> f x = g y) -> forallb f l = forallb g l'.
Proof. intros H Hf. induction H as [|x y l l' Hxy _ IH]; [reflexivity|]. cbn [forallb]. rewrite (Hf _ _ Hxy), IH. reflexivity. Qed.

Lemma existsb_rel {A B} (R : A -> B -> Prop) (f : A -> bool) (g : B -> bool) l l' :
  Forall2 R l l' -> (forall x y, R x y -> f x = g y) -> existsb f l = existsb g l'.
Proof. intros H Hf. induction H as [|x y l l' Hxy _ IH]; [reflexivity|]. cbn [existsb]. rewrite (Hf _ _ Hxy), IH. reflexivity. Qed.

Lemma filter_rel {A B} (R : A -> B -> Prop) (f : A -> bool) (g : B -> bool) l l' :
  Forall2 R l l' -> (forall x y, R x y -> f x = g y) -> Forall2 R (filter f l) (filter g l').
Proof.
  intros H Hf. induction H as [|x y l l' Hxy _ IH]; [constructor|]. cbn [filter]. rewrite <- (Hf _ _ Hxy).
  destruct (f x); [constructor; assumption|exact IH].
Qed.

Lemma find_rel {A B} (R : A -> B -> Prop) (f : A -> bool) (g : B -> bool) l l' :
  Forall2 R l l' -> (forall x y, R x y -> f x = g y) -> opt_rel R (find f l) (find g l').
Proof.
  intros H Hf. induction H as [|x y l l' Hxy _ IH]; [constructor|]. cbn [find]. rewrite <- (Hf _ _ Hxy).
  destruct (f x); [constructor; assumption|exact IH].
Qed.

Lemma Forall2_map2 {A B C D} (R : A -> B -> Prop) (S : C -> D -> Prop) (f : A -> C) (g : B -> D) l l' :
  Forall2 R l l' -> (forall x y, R x y -> S (f x) (g y)) -> Forall2 S (map f l) (map g l').
Proof. intros H Hf. induction H; cbn [map]; constructor; auto. Qed.

Lemma Forall2_rev {A B} (R : A -> B -> Prop) l l' : Forall2 R l l' -> Forall2 R (rev l) (rev l').
Proof. induction 1; cbn [rev]; [constructor|]. apply Forall2_app2; [assumption|]. constructor; [assumption|constructor]. Qed.

Lemma Forall2_firstn {A B} (R : A -> B -> Prop) n l l' : Forall2 R l l' -> Forall2 R (firstn n l) (firstn n l').
Proof. intro H. revert n. induction H; intros [|n]; cbn [firstn]; constructor; auto. Qed.

Lemma Forall2_length' {A B} (R : A -> B -> Prop) l l' : Forall2 R l l' -> length l = length l'.
Proof. induction 1; cbn [length]; congruence. Qed.

Lemma Forall2_nth {A B} (R : A -> B -> Prop) l l' i : Forall2 R l l' -> opt_rel R (nth_error l i) (nth_error l' i).
Proof. intro H. revert i. induction H; intros [|i]; cbn [nth_error]; try constructor; auto. Qed.

Lemma Forall2_tl {A B} (R : A -> B -> Prop) l l' : Forall2 R l l' -> Forall2 R (tl l) (tl l').
Proof. destruct 1; cbn [tl]; [constructor|assumption]. Qed.

(* ---------- the tables as scopes ---------- *)

Lemma scope_of_sim T T' : table_sim T T' -> scope_of T = scope_of T'.
Proof. intros (A & B & _). unfold scope_of, cls_str. rewrite A, B. reflexivity. Qed.

Lemma cls_str_sim T T' : table_sim T T' -> cls_str T = cls_str T'.
Proof. intros (A & _). unfold cls_str. rewrite A. reflexivity. Qed.

Lemma find_in_sim T T' id id' : table_sim T T' -> ci_eq id id' -> find_in T id = find_in T' id'.
Proof.
  intros HT Hi. unfold find_in, sym_at. rewrite <- (scope_of_sim _ _ HT), (scope_find_ci _ id id' Hi).
  destruct HT as (_ & B & _). rewrite B. reflexivity.
Qed.

Definition hit_sim (h h' : table * asym) : Prop := table_sim (fst h) (fst h') /\ snd h = snd h'.

Lemma lookup_sim ch ch' id id' : Forall2 table_sim ch ch' -> ci_eq id id' -> opt_rel hit_sim (lookup ch id) (lookup ch' id').
Proof.
  intros H Hi. induction H as [|T T' l l' HT _ IH]; [constructor|]. cbn [lookup].
  rewrite <- (find_in_sim _ _ _ _ HT Hi). destruct (find_in T id); [|exact IH]. constructor. split; [exact HT|reflexivity].
Qed.

Lemma lookup_all_sim ch ch' id id' : Forall2 table_sim ch ch' -> ci_eq id id' -> Forall2 hit_sim (lookup_all ch id) (lookup_all ch' id').
Proof.
  intros H Hi. induction H as [|T T' l l' HT _ IH]; [constructor|]. cbn [lookup_all].
  rewrite <- (find_in_sim _ _ _ _ HT Hi). apply Forall2_app2; [|exact IH].
  destruct (find_in T id); constructor; [|constructor]. split; [exact HT|reflexivity].
Qed.

Lemma class_level_sim ch ch' : Forall2 table_sim ch ch' -> Forall2 table_sim (class_level_t ch) (class_level_t ch').
Proof.
  intro H. induction H as [|T T' l l' HT Hl IH]; [constructor|]. cbn [class_level_t].
  destruct Hl as [|P P' r r' HP Hr]; [constructor; [exact HT|constructor]|].
  destruct HT as (A & HT'). destruct HP as (B & HP'). rewrite <- A, <- B.
  destruct (DefTree.opt_str_eqb (t_cls P) (t_cls T)); [exact IH|].
  constructor; [split; assumption|]. constructor; [split; assumption|exact Hr].
Qed.

Lemma map_scope_of_sim ch ch' : Forall2 table_sim ch ch' -> map scope_of ch = map scope_of ch'.
Proof. intro H. apply Forall2_map_eq. eapply Forall2_impl; [|exact H]. apply scope_of_sim. Qed.

Lemma labels_lhs_sim ch ch' : Forall2 table_sim ch ch' -> labels_lhs ch = labels_lhs ch'.
Proof. intro H. unfold labels_lhs. rewrite (map_scope_of_sim _ _ H). reflexivity. Qed.
Lemma labels_rhs_sim ch ch' : Forall2 table_sim ch ch' -> labels_rhs ch = labels_rhs ch'.
Proof. intro H. unfold labels_rhs. rewrite (map_scope_of_sim _ _ H). reflexivity. Qed.

(* ---------- node predicates ---------- *)

Lemma is_header_node_sim n n' : nsx n n' -> is_header_node n = is_header_node n'.
Proof. intro H. unfold is_header_node. rewrite !(nsx_is_kind _ _ _ H). reflexivity. Qed.
Lemma is_method_node_sim n n' : nsx n n' -> is_method_node n = is_method_node n'.
Proof. intro H. unfold is_method_node. rewrite (nsx_kind _ _ H). reflexivity. Qed.
Lemma is_member_decl_sim n n' : nsx n n' -> is_member_decl n = is_member_decl n'.
Proof. intro H. unfold is_member_decl. rewrite !(nsx_is_kind _ _ _ H). reflexivity. Qed.

Lemma is_dot_sim n n' : nsx n n' -> is_dot n = is_dot n'.
Proof.
  intro H. unfold is_dot. rewrite (nsx_is_kind _ _ _ H).
  destruct (attr_tok_rel K_op _ _ (nsx_sim _ _ H)) as [|o o' Ho]; [reflexivity|]. rewrite (ts_ty _ _ Ho). reflexivity.
Qed.

Lemma first_child_sim n n' : nsx n n' -> opt_rel nsx (first_child n) (first_child n').
Proof. intro H. unfold first_child. destruct (nsx_children _ _ H); constructor; assumption. Qed.

Lemma has_parent_node_sim n n' : nsx n n' -> has_parent_node n = has_parent_node n'.
Proof.
  intro H. unfold has_parent_node. rewrite (nsx_is_kind _ _ _ H).
  destruct (attr_tok_rel K_parent _ _ (nsx_sim _ _ H)); reflexivity.
Qed.

Lemma has_uses_node_sim n n' : nsx n n' -> has_uses_node n = has_uses_node n'.
Proof.
  intro H. unfold has_uses_node. rewrite (nsx_is_kind _ _ _ H).
  destruct (uses_names_sim _ _ (nsx_sim _ _ H)); reflexivity.
Qed.

Lemma all_nodes_sim t t' : nsx t t' -> Forall2 nsx (all_nodes t) (all_nodes t').
Proof. intro H. unfold all_nodes. eapply Forall2_map2; [apply visit_seq_sim; exact H|]. intros x y [_ A]. exact A. Qed.

Lemma foreign_parent_sim t t' : nsx t t' -> foreign_parent t = foreign_parent t'.
Proof. intro H. unfold foreign_parent. apply (existsb_rel nsx); [apply all_nodes_sim; exact H|apply has_parent_node_sim]. Qed.

Lemma foreign_sim t t' : nsx t t' -> foreign t = foreign t'.
Proof.
  intro H. unfold foreign. rewrite (foreign_parent_sim _ _ H). f_equal.
  apply (existsb_rel nsx); [apply all_nodes_sim; exact H|apply has_uses_node_sim].
Qed.

Lemma flat_methods_sim t t' : nsx t t' -> flat_methods t = flat_methods t'.
Proof.
  intro H. unfold flat_methods. rewrite (is_method_node_sim _ _ H). f_equal.
  apply (forallb_rel nsx); [apply nsx_children; exact H|]. intros c c' Hc.
  apply (forallb_rel vsim); [apply below_sim; assumption|]. intros p p' [_ Hp]. rewrite (is_method_node_sim _ _ Hp). reflexivity.
Qed.

(* ---------- the way down ---------- *)

Definition step_sim (s s' : nat * node) : Prop := fst s = fst s' /\ nsx (snd s) (snd s').

Lemma descend_eq p n : descend p n =
  (fix go (i : nat) (l : list node) : list (nat * node) :=
     match l with
     | [] => []
     | c :: l' => if contains (nrange c) p then (i, c) :: descend p c else go (S i) l'
     end) O (nchildren n).
Proof. destruct n; reflexivity. Qed.

Lemma descend_sim p : forall n n', nsx n n' -> Forall2 step_sim (descend p n) (descend p n').
Proof.
  intro n. pattern n. apply node_ind'. clear n. intros k id raw rg at_ ch IHn n' Hn.
  rewrite !descend_eq. pose proof (nsx_children _ _ Hn) as HC. cbn [nchildren] in *. clear Hn. generalize O.
  induction HC as [|c c' l l' Hc _ IH]; intro i; [constructor|]. inversion IHn; subst.
  rewrite <- (nsx_range _ _ Hc). destruct (contains (nrange c) p); [|apply IH; assumption].
  constructor; [split; [reflexivity|exact Hc]|auto].
Qed.

Lemma path_up_sim p t t' : nsx t t' -> Forall2 step_sim (path_up p t) (path_up p t').
Proof.
  intro H. unfold path_up. apply Forall2_rev. constructor; [split; [reflexivity|exact H]|apply descend_sim; exact H].
Qed.

Lemma in_method_sim s s' : Forall2 step_sim s s' -> in_method s = in_method s'.
Proof. destruct 1 as [|[i c] [i' c'] l l' [_ Hc] _]; [reflexivity|]. cbn [in_method]. apply is_method_node_sim. exact Hc. Qed.

Lemma chain_for_sim t t' s s' : nsx t t' -> Forall2 step_sim s s' ->
  opt_rel (Forall2 table_sim) (chain_for t s) (chain_for t' s').
Proof.
  intros Ht Hs. unfold chain_for. cbv zeta. pose proof (annotate_sim false t t' Ht) as (A & _ & C).
  assert (R1 : Forall2 table_sim [st_root (annotate false t)] [st_root (annotate false t')]) by (constructor; [exact A|constructor]).
  destruct Hs as [|[i c] [i' c'] l l' [Hi Hc] _]; [constructor; exact R1|]. cbn [fst snd] in Hi, Hc. subst i'.
  rewrite <- (is_method_node_sim _ _ Hc). destruct (is_method_node c); [|constructor; exact R1].
  assert (L : length (filter is_method_node (firstn i (nchildren t))) = length (filter is_method_node (firstn i (nchildren t')))).
  { apply (Forall2_length' nsx). apply filter_rel; [apply Forall2_firstn; apply nsx_children; exact Ht|apply is_method_node_sim]. }
  rewrite <- L. destruct (Forall2_nth _ _ _ (length (filter is_method_node (firstn i (nchildren t)))) C) as [|m m' Hm]; constructor.
  constructor; [exact Hm|exact R1].
Qed.

(* ---------- get_id ---------- *)

Lemma tok_contains_sim k n n' p : node_sim n n' -> tok_contains (attr_tok k n) p = tok_contains (attr_tok k n') p.
Proof. intro H. destruct (attr_tok_rel k _ _ H) as [|a b Hab]; [reflexivity|]. cbn [tok_contains]. rewrite (ts_range _ _ Hab). reflexivity. Qed.

Lemma tok_val_sim k n n' : node_sim n n' -> opt_rel ci_eq (option_map tval (attr_tok k n)) (option_map tval (attr_tok k n')).
Proof. intro H. destruct (attr_tok_rel k _ _ H) as [|a b Hab]; constructor. apply Hab. Qed.

Lemma get_id_sim n n' p : nsx n n' -> opt_rel ci_eq (get_id n p) (get_id n' p).
Proof.
  intro H. pose proof (nsx_sim _ _ H) as Hs. unfold get_id. rewrite <- !(nsx_is_kind _ _ _ H), <- (is_member_decl_sim _ _ H).
  destruct (is_kind KAstTerminal n || is_kind KAstTypeBasic n || is_kind KAstTypeReference n || is_kind KAstMethodCall n);
    [constructor; apply nsx_ci; exact H|].
  rewrite <- !(tok_contains_sim _ _ _ p Hs).
  destruct (is_kind KAstClass n); [destruct (tok_contains (attr_tok K_parent n) p); [apply tok_val_sim; exact Hs|constructor]|].
  destruct (is_member_decl n); [|constructor].
  destruct (tok_contains (attr_tok K_ident n) p); [apply tok_val_sim; exact Hs|constructor].
Qed.

(* ---------- links ---------- *)

Lemma def_single_sim t t' stem ch ch' o o' : nsx t t' -> Forall2 table_sim ch ch' -> opt_rel ci_eq o o' ->
  def_single t stem ch o = def_single t' stem ch' o'.
Proof.
  intros Ht Hc Ho. unfold def_single. destruct Ho as [|id id' Hi]; [reflexivity|].
  destruct (lookup_sim _ _ _ _ Hc Hi) as [|[T a] [T' a'] [HT Ha]]; [rewrite (foreign_sim _ _ Ht); reflexivity|].
  cbn [fst snd] in HT, Ha. subst a'. rewrite (cls_str_sim _ _ HT). reflexivity.
Qed.

Lemma def_all_sim t t' stem ch ch' o o' : nsx t t' -> Forall2 table_sim ch ch' -> opt_rel ci_eq o o' ->
  def_all t stem ch o = def_all t' stem ch' o'.
Proof.
  intros Ht Hc Ho. unfold def_all. destruct Ho as [|id id' Hi]; [reflexivity|].
  rewrite <- (foreign_parent_sim _ _ Ht). destruct (foreign_parent t); [reflexivity|]. cbv zeta.
  pose proof (lookup_all_sim _ _ _ _ Hc Hi) as HL.
  rewrite (forallb_rel hit_sim (fun h => indexed1 stem (cls_str (fst h))) (fun h => indexed1 stem (cls_str (fst h))) _ _ HL)
    by (intros x y [A _]; rewrite (cls_str_sim _ _ A); reflexivity).
  replace (map (fun h => link_of (snd h)) (lookup_all ch' id')) with (map (fun h => link_of (snd h)) (lookup_all ch id)); [reflexivity|].
  apply Forall2_map_eq. eapply Forall2_impl; [|exact HL]. intros x y [_ A]. rewrite A. reflexivity.
Qed.

(* ---------- the operand whose type is the document's own class ---------- *)

Lemma the_header_sim t t' : nsx t t' -> opt_rel nsx (the_header t) (the_header t').
Proof.
  intro H. unfold the_header.
  pose proof (filter_rel nsx is_header_node is_header_node _ _ (all_nodes_sim _ _ H) is_header_node_sim) as F.
  destruct F as [|x x' l l' _ Hl]; [constructor|]. destruct Hl; [|constructor].
  pose proof (filter_rel nsx (fun c => is_header_node c || is_method_node c) (fun c => is_header_node c || is_method_node c)
                _ _ (nsx_children _ _ H)) as G.
  destruct G as [|h h' r r' Hh _]; [|constructor|].
  - intros a b Hab. rewrite (is_header_node_sim _ _ Hab), (is_method_node_sim _ _ Hab). reflexivity.
  - rewrite <- (is_header_node_sim _ _ Hh). destruct (is_header_node h); constructor. exact Hh.
Qed.

Lemma ci_eqb_sim a a' b b' : ci_eq a a' -> ci_eq b b' -> ci_eqb a b = ci_eqb a' b'.
Proof. unfold ci_eq, ci_eqb. intros -> ->. reflexivity. Qed.

Lemma forallb_ext' {A} (f g : A -> bool) l : (forall x, f x = g x) -> forallb f l = forallb g l.
Proof. intro H. induction l as [|x l IH]; [reflexivity|]. cbn [forallb]. rewrite H, IH. reflexivity. Qed.

Lemma name_free_sim t t' L L' : nsx t t' -> ci_eq L L' -> name_free t L = name_free t' L'.
Proof.
  intros Ht HL. unfold name_free. cbv zeta. pose proof (annotate_sim false t t' Ht) as (A & _ & C).
  apply (forallb_rel table_sim); [constructor; assumption|]. intros T T' (_ & B & _). rewrite B.
  apply forallb_ext'. intro a. rewrite (ci_eqb_sim _ _ _ _ (ci_eq_refl (a_name a)) HL). reflexivity.
Qed.

Lemma header_name_eq h h' : nsx h h' -> is_header_node h = true -> nident h = nident h'.
Proof.
  intros H Hh. apply (RecaseLints.nsx_name _ _ H). unfold is_header_node, is_kind in Hh. apply orb_true_iff in Hh.
  destruct Hh as [E|E]; apply ak_eqb_eq in E; rewrite E; reflexivity.
Qed.

Lemma the_header_is t h : the_header t = Some h -> is_header_node h = true.
Proof.
  unfold the_header. destruct (filter is_header_node (all_nodes t)) as [|x [|y l]]; try discriminate.
  destruct (filter (fun c => is_header_node c || is_method_node c) (nchildren t)) as [|h0 r]; [discriminate|].
  destruct (is_header_node h0) eqn:E; [|discriminate]. intro H. inversion H; subst. exact E.
Qed.

Lemma own_entity_sim t t' l l' : nsx t t' -> nsx l l' -> own_entity t l = own_entity t' l'.
Proof.
  intros Ht Hl. unfold own_entity. rewrite <- (nsx_is_kind _ _ _ Hl). destruct (is_kind KAstTerminal l); [|reflexivity].
  pose proof (the_header_is t) as HI. destruct (the_header_sim _ _ Ht) as [|h h' Hh]; [reflexivity|]. cbv zeta.
  pose proof (header_name_eq _ _ Hh (HI _ eq_refl)) as En.
  rewrite <- (name_free_sim _ _ _ _ Ht (nsx_ci _ _ Hl)), <- (nsx_is_kind _ _ _ Hh), <- En,
          <- (ci_eqb_sim _ _ _ _ (nsx_ci _ _ Hl) (ci_eq_refl (nident h))), <- (ci_eqb_sim _ _ _ _ (nsx_ci _ _ Hl) (ci_eq_refl s_self)).
  reflexivity.
Qed.

(* DEFTREE: the same answer at every position, for every file stem *)
Theorem deftree_recase t t' stem p : ref_sim t t' ->
  definition t stem p = definition t' stem p /\ completion t stem p = completion t' stem p.
Proof.
  intro H. apply ref_sim_nsx in H. split.
  - unfold definition. rewrite <- (flat_methods_sim _ _ H). destruct (negb (flat_methods t)); [reflexivity|]. cbv zeta.
    pose proof (descend_sim p _ _ H) as HS. pose proof (path_up_sim p _ _ H) as HP.
    destruct (chain_for_sim _ _ _ _ H HS) as [|ch ch' Hc]; [reflexivity|].
    destruct HP as [|[idx enc] [idx' enc'] up up' [Hi He] Hup]; [reflexivity|]. cbn [fst snd] in Hi, He. subst idx'.
    pose proof (get_id_sim _ _ p He) as Hid. rewrite <- (is_member_decl_sim _ _ He).
    destruct Hup as [|[j q] [j' q'] r r' [_ Hq] _]; cbn [snd] in *.
    + destruct (is_member_decl enc); [apply def_all_sim|apply def_single_sim]; assumption.
    + rewrite <- (is_dot_sim _ _ Hq), <- (is_method_node_sim _ _ Hq). destruct (is_dot q).
      * destruct idx; [apply def_single_sim; assumption|].
        destruct (first_child_sim _ _ Hq) as [|l l' Hl]; [reflexivity|].
        rewrite <- (own_entity_sim _ _ _ _ H Hl). destruct (own_entity t l); [|reflexivity].
        rewrite <- (in_method_sim _ _ HS). destruct (in_method (descend p t)); [|reflexivity].
        destruct (indexed1 stem s); [|reflexivity]. apply def_all_sim; [assumption|apply class_level_sim; assumption|assumption].
      * destruct (is_method_node q && Nat.eqb idx 0); [apply def_all_sim; [assumption|apply class_level_sim; assumption|assumption]|].
        destruct (is_member_decl enc); [apply def_all_sim|apply def_single_sim]; assumption.
  - unfold completion. rewrite <- (flat_methods_sim _ _ H). destruct (negb (flat_methods t)); [reflexivity|]. cbv zeta.
    pose proof (descend_sim p _ _ H) as HS. pose proof (path_up_sim p _ _ H) as HP.
    destruct (chain_for_sim _ _ _ _ H HS) as [|ch ch' Hc]; [reflexivity|].
    destruct HP as [|[idx enc] [idx' enc'] up up' [Hi He] Hup]; [reflexivity|]. cbn [fst snd] in Hi, He. subst idx'.
    assert (LHS : compl_lhs t ch = compl_lhs t' ch').
    { unfold compl_lhs. rewrite (foreign_parent_sim _ _ H), (labels_lhs_sim _ _ Hc). reflexivity. }
    assert (RHS : forall o o', opt_rel nsx o o' -> compl_rhs t stem (descend p t) ch o = compl_rhs t' stem (descend p t') ch' o').
    { intros o o' Ho. unfold compl_rhs. destruct Ho as [|l l' Hl]; [reflexivity|].
      rewrite <- (own_entity_sim _ _ _ _ H Hl). destruct (own_entity t l); [|reflexivity].
      rewrite <- (in_method_sim _ _ HS), <- (foreign_parent_sim _ _ H), (labels_rhs_sim _ _ (class_level_sim _ _ Hc)). reflexivity. }
    rewrite <- (is_dot_sim _ _ He). destruct (is_dot enc).
    + destruct (attr_tok_rel K_op _ _ (nsx_sim _ _ He)) as [|o o' Ho]; [reflexivity|]. rewrite <- (ts_range _ _ Ho).
      destruct (pos_leb (rend (trange o)) p); [apply RHS; apply first_child_sim; exact He|exact LHS].
    + destruct Hup as [|[j q] [j' q'] r r' [_ Hq] _]; [exact LHS|]. cbn [snd] in Hq. rewrite <- (is_dot_sim _ _ Hq).
      destruct (is_dot q); [|exact LHS]. destruct idx; [exact LHS|]. apply RHS. apply first_child_sim. exact Hq.
Qed.
