(* C17 carried through the tree-level models, part 3: the type hierarchy (Model/HierTree.v over Model/Forest.v).

   forest_recase      the class trees built from two file lists that agree up to the letter case of the names
                      (class names AND parent references; any order of the files, no forest / size hypothesis)
                      are the same heap -- same pointers, parents, children lists, same name -> pointer map -- and
                      differ at most in the letter case of a node's `id` (the spelling seen first, which may be
                      a reference); every walker reads a node's id upper-cased only, so all walkers agree.
   hiertree_recase    for workspaces with the same stems and pairwise ~ref trees: prepareTypeHierarchy at every
                      position, supertypes and subtypes of every item are IDENTICAL, names included: an item's
                      name is the symbol's name in the declaring file's table (since /repo 3e4a84d), a declared
                      name, never the reference that led there.
   hiertree_old_item_name_refuted   the item name as it was before 3e4a84d (the tree node's id) was the first
                      spelling seen, possibly a re-cased reference: it differs between two ~ref workspaces. *)
From GoldV Require Import Base Tokens Keywords Lexer AstKinds Tree Recase RecaseBase RecaseOutline.
From GoldV Require Import Encase SymTab SymTabProofs Scoping ScopingProofs Annot AnnotProofs DefTree HierTree.
From GoldV Require Import RecaseTree RecaseWsTree.
From GoldV Require Forest RecaseLints.
From Coq Require Import Lia.

Module F := Forest.

(* ====================================================================================== *)
(* 1. the class tree                                                                      *)
(* ====================================================================================== *)

Definition fnode_sim (n n' : F.node) : Prop := ci_eq (F.nid n) (F.nid n') /\ F.npar n = F.npar n' /\ F.nkids n = F.nkids n'.
Definition ftree_sim (t t' : F.tree) : Prop := Forall2 fnode_sim (F.heap t) (F.heap t') /\ F.emap t = F.emap t'.
Definition file_sim (f f' : F.file) : Prop := ci_eq (fst f) (fst f') /\ opt_rel ci_eq (snd f) (snd f').

Lemma getn_sim t t' p : ftree_sim t t' -> opt_rel fnode_sim (F.getn t p) (F.getn t' p).
Proof. intros [H _]. unfold F.getn. apply Forall2_nth. exact H. Qed.

Lemma parent_of_sim t t' p : ftree_sim t t' -> F.parent_of t p = F.parent_of t' p.
Proof. intro H. unfold F.parent_of. destruct (getn_sim _ _ p H) as [|n n' (_ & A & _)]; [reflexivity|exact A]. Qed.
Lemma kids_of_sim t t' p : ftree_sim t t' -> F.kids_of t p = F.kids_of t' p.
Proof. intro H. unfold F.kids_of. destruct (getn_sim _ _ p H) as [|n n' (_ & _ & A)]; [reflexivity|exact A]. Qed.
Lemma key_of_sim t t' p : ftree_sim t t' -> F.key_of t p = F.key_of t' p.
Proof. intro H. unfold F.key_of. destruct (getn_sim _ _ p H) as [|n n' (A & _)]; [reflexivity|exact A]. Qed.
Lemma flookup_sim t t' k : ftree_sim t t' -> F.lookup t k = F.lookup t' k.
Proof. intros [_ H]. unfold F.lookup. rewrite H. reflexivity. Qed.

Lemma heap_length_sim t t' : ftree_sim t t' -> length (F.heap t) = length (F.heap t').
Proof. intros [H _]. apply (Forall2_length' _ _ _ H). Qed.

Lemma alloc_sim id id' t t' : ci_eq id id' -> ftree_sim t t' ->
  fst (F.alloc id t) = fst (F.alloc id' t') /\ ftree_sim (snd (F.alloc id t)) (snd (F.alloc id' t')).
Proof.
  intros Hi H. unfold F.alloc. cbn [fst snd]. rewrite <- (heap_length_sim _ _ H). split; [reflexivity|].
  destruct H as [A B]. split; cbn [F.heap F.emap].
  - apply Forall2_app2; [exact A|]. constructor; [|constructor]. split; [exact Hi|split; reflexivity].
  - rewrite B. unfold ci_eq in Hi. rewrite Hi. reflexivity.
Qed.

Lemma get_or_create_sim id id' t t' : ci_eq id id' -> ftree_sim t t' ->
  fst (F.get_or_create id t) = fst (F.get_or_create id' t') /\ ftree_sim (snd (F.get_or_create id t)) (snd (F.get_or_create id' t')).
Proof.
  intros Hi H. unfold F.get_or_create. rewrite <- (flookup_sim _ _ _ H). replace (upper id') with (upper id) by exact Hi.
  destruct (F.lookup t (upper id)); [split; [reflexivity|exact H]|]. apply alloc_sim; assumption.
Qed.

Lemma upd_sim {A} (R : A -> A -> Prop) (f : A -> A) n l l' :
  Forall2 R l l' -> (forall x y, R x y -> R (f x) (f y)) -> Forall2 R (F.upd n f l) (F.upd n f l').
Proof. intros H Hf. revert n. induction H; intros [|n]; cbn [F.upd]; constructor; auto. Qed.

Lemma set_parent_sim t t' e p : ftree_sim t t' -> ftree_sim (F.set_parent t e p) (F.set_parent t' e p).
Proof.
  intros [A B]. split; cbn [F.set_parent F.heap F.emap]; [|exact B]. apply upd_sim; [exact A|].
  intros x y (H1 & H2 & H3). split; [exact H1|split; [reflexivity|exact H3]].
Qed.

Lemma push_child_sim t t' p e : ftree_sim t t' -> ftree_sim (F.push_child t p e) (F.push_child t' p e).
Proof.
  intros [A B]. split; cbn [F.push_child F.heap F.emap]; [|exact B]. apply upd_sim; [exact A|].
  intros x y (H1 & H2 & H3). split; [exact H1|split; [exact H2|cbn [F.nkids]; rewrite H3; reflexivity]].
Qed.

Lemma remove_kid_sim t t' q e : ftree_sim t t' -> ftree_sim (F.remove_kid t q e) (F.remove_kid t' q e).
Proof.
  intros [A B]. split; cbn [F.remove_kid F.heap F.emap]; [|exact B]. apply upd_sim; [exact A|].
  intros x y (H1 & H2 & H3). split; [exact H1|split; [exact H2|cbn [F.nkids]; rewrite H3; reflexivity]].
Qed.

Lemma relink_sim t t' e p : ftree_sim t t' -> ftree_sim (F.relink t e p) (F.relink t' e p).
Proof.
  intro H. unfold F.relink, F.link, F.detach. apply push_child_sim. apply set_parent_sim.
  rewrite <- (parent_of_sim _ _ e H). destruct (F.parent_of t e); [apply remove_kid_sim|]; exact H.
Qed.

Lemma link_sim t t' e p : ftree_sim t t' -> ftree_sim (F.link t e p) (F.link t' e p).
Proof. intro H. unfold F.link. apply push_child_sim. apply set_parent_sim. exact H. Qed.

Lemma isa_sim t t' e : ftree_sim t t' -> forall fuel cur, F.isa fuel t e cur = F.isa fuel t' e cur.
Proof.
  intro H. induction fuel as [|f IH]; intro cur; cbn [F.isa]; [reflexivity|].
  rewrite <- (parent_of_sim _ _ cur H). destruct (Nat.eqb cur e); [reflexivity|]. destruct (F.parent_of t cur); [apply IH|reflexivity].
Qed.

Lemma check_link_sim g dt t t' e p : ftree_sim t t' -> ftree_sim (F.check_link_g g dt t e p) (F.check_link_g g dt t' e p).
Proof.
  intro H. unfold F.check_link_g. rewrite <- (isa_sim _ _ e H). destruct (g && F.isa F.isa_bound t e p); [exact H|].
  destruct dt; [apply relink_sim|apply link_sim]; exact H.
Qed.

Lemma add_file_sim g dt t t' f f' : ftree_sim t t' -> file_sim f f' -> ftree_sim (F.add_file_x g dt t f) (F.add_file_x g dt t' f').
Proof.
  intros H [Hn Hp]. unfold F.add_file_x. destruct (get_or_create_sim _ _ _ _ Hn H) as [E1 H1].
  destruct (F.get_or_create (fst f) t) as [e t1], (F.get_or_create (fst f') t') as [e' t1']. cbn [fst snd] in E1, H1. subst e'.
  destruct Hp as [|pn pn' Hpn]; [exact H1|].
  destruct (get_or_create_sim _ _ _ _ Hpn H1) as [E2 H2].
  destruct (F.get_or_create pn t1) as [p t2], (F.get_or_create pn' t1') as [p' t2']. cbn [fst snd] in E2, H2. subst p'.
  apply check_link_sim. exact H2.
Qed.

(* FOREST: same heap shape and same map; node ids equal ignoring case *)
Theorem forest_recase fs fs' : Forall2 file_sim fs fs' -> ftree_sim (F.build fs) (F.build fs').
Proof.
  intro H. unfold F.build. assert (G : ftree_sim F.empty F.empty) by (split; [constructor|reflexivity]).
  revert G. generalize F.empty at 1 3. generalize F.empty. intros t' t.
  revert t t'. induction H as [|f f' l l' Hf _ IH]; intros t t' G; cbn [fold_left]; [exact G|].
  apply IH. apply add_file_sim; assumption.
Qed.

(* ---------- the walkers ---------- *)

Lemma fsupertypes_sim t t' c : ftree_sim t t' -> F.supertypes t c = F.supertypes t' c.
Proof.
  intro H. unfold F.supertypes, F.kparent. rewrite <- (flookup_sim _ _ _ H). destruct (F.lookup t (upper c)) as [e|]; [|reflexivity].
  rewrite <- (parent_of_sim _ _ e H). destruct (F.parent_of t e) as [q|]; [|reflexivity]. rewrite (key_of_sim _ _ q H). reflexivity.
Qed.

Lemma fsubtypes_sim t t' c : ftree_sim t t' -> F.subtypes t c = F.subtypes t' c.
Proof.
  intro H. unfold F.subtypes, F.kchildren. rewrite <- (flookup_sim _ _ _ H). destruct (F.lookup t (upper c)) as [e|]; [|reflexivity].
  rewrite <- (kids_of_sim _ _ e H). apply map_ext. intro q. apply key_of_sim. exact H.
Qed.

Lemma mem_up_sim t t' d d' name : ftree_sim t t' -> (forall k, d k = d' k) ->
  forall fuel p, F.mem_up fuel t d name p = F.mem_up fuel t' d' name p.
Proof.
  intros H Hd. induction fuel as [|f IH]; intro p; cbn [F.mem_up]; [reflexivity|].
  rewrite <- (key_of_sim _ _ p H), <- Hd, <- (parent_of_sim _ _ p H).
  destruct (d (F.key_of t p)); [|reflexivity]. destruct (F.memb name l); [reflexivity|]. destruct (F.parent_of t p); [apply IH|reflexivity].
Qed.

Lemma member_supertypes_sim t t' d d' c name : ftree_sim t t' -> (forall k, d k = d' k) ->
  F.member_supertypes t d c name = F.member_supertypes t' d' c name.
Proof.
  intros H Hd. unfold F.member_supertypes. rewrite <- (flookup_sim _ _ _ H). destruct (F.lookup t (upper c)) as [e|]; [|reflexivity].
  rewrite <- (parent_of_sim _ _ e H), <- (heap_length_sim _ _ H). destruct (F.parent_of t e); [|reflexivity]. apply mem_up_sim; assumption.
Qed.

Lemma fold_right_ext {A B} (f g : A -> B -> B) b l : (forall x y, f x y = g x y) -> fold_right f b l = fold_right g b l.
Proof. intro H. induction l as [|x l IH]; [reflexivity|]. cbn [fold_right]. rewrite IH. apply H. Qed.

Lemma mem_down_sim hold t t' d d' name : ftree_sim t t' -> (forall k, d k = d' k) ->
  forall fuel held p, F.mem_down hold fuel t d name held p = F.mem_down hold fuel t' d' name held p.
Proof.
  intros H Hd. induction fuel as [|f IH]; intros held p; cbn [F.mem_down]; [reflexivity|].
  rewrite <- (key_of_sim _ _ p H), <- Hd, <- (kids_of_sim _ _ p H).
  destruct (existsb (Nat.eqb p) held); [reflexivity|].
  destruct (d (F.key_of t p)); [|reflexivity]. destruct (F.memb name l); [reflexivity|].
  apply fold_right_ext. intros x y. rewrite IH. reflexivity.
Qed.

Lemma member_subtypes_sim t t' d d' c name : ftree_sim t t' -> (forall k, d k = d' k) ->
  F.member_subtypes t d c name = F.member_subtypes t' d' c name.
Proof.
  intros H Hd. unfold F.member_subtypes, F.member_subtypes_g. rewrite <- (flookup_sim _ _ _ H).
  destruct (F.lookup t (upper c)) as [e|]; [|reflexivity]. rewrite <- (kids_of_sim _ _ e H), <- (heap_length_sim _ _ H).
  apply fold_right_ext. intros x y. rewrite (mem_down_sim false _ _ _ _ (upper name) H Hd). reflexivity.
Qed.

(* ====================================================================================== *)
(* 2. workspaces of trees                                                                 *)
(* ====================================================================================== *)

Lemma entity_info_sim t t' : nsx t t' ->
  opt_rel (fun f f' => fst f = fst f' /\ opt_rel ci_eq (snd f) (snd f')) (entity_info t) (entity_info t').
Proof.
  intro H. unfold entity_info.
  pose proof (find_rel nsx is_header_node is_header_node _ _ (nsx_children _ _ H) is_header_node_sim) as Fd.
  destruct (find is_header_node (nchildren t)) as [h|] eqn:Eh; inversion Fd as [|x h' Hh E1 E2]; subst; [|constructor].
  constructor. cbn [fst snd]. split.
  - apply header_name_eq; [exact Hh|]. apply find_some in Eh. apply Eh.
  - apply tok_val_sim. apply nsx_sim. exact Hh.
Qed.

Lemma hroot_of_sim d d' : doc_sim d d' -> table_sim (HierTree.root_of d) (HierTree.root_of d').
Proof. intros [_ H]. unfold HierTree.root_of. apply root_table_sim. exact H. Qed.

Lemma member_names_sim t t' : nsx t t' -> member_names t = member_names t'.
Proof. intro H. unfold member_names. destruct (root_table_sim false _ _ H) as (_ & B & _). rewrite B. reflexivity. Qed.

Lemma files_of_ws_sim ws ws' : ws_sim ws ws' -> Forall2 file_sim (files_of_ws ws) (files_of_ws ws').
Proof.
  intro H. unfold files_of_ws, forest_input_of_ws. induction H as [|d d' l l' [_ Hd] _ IH]; [constructor|].
  cbn [flat_map]. rewrite !map_app. apply Forall2_app2; [|exact IH].
  destruct (entity_info_sim _ _ Hd) as [|[c p] [c' p'] [Ec Ep]]; [constructor|]. cbn [fst snd] in Ec, Ep. subst c'.
  cbn [map]. constructor; [|constructor]. split; cbn [file_of fst snd]; [apply ci_eq_refl|exact Ep].
Qed.

Lemma class_tree_sim ws ws' : ws_sim ws ws' -> ftree_sim (class_tree ws) (class_tree ws').
Proof. intro H. unfold class_tree. apply forest_recase. apply files_of_ws_sim. exact H. Qed.

Lemma doc_of_sim ws ws' k : ws_sim ws ws' -> opt_rel doc_sim (doc_of ws k) (doc_of ws' k).
Proof.
  intro H. unfold doc_of. apply (find_rel doc_sim); [exact H|]. intros x y [E _]. rewrite E. reflexivity.
Qed.

Lemma decls_of_ws_sim ws ws' : ws_sim ws ws' -> forall k, decls_of_ws ws k = decls_of_ws ws' k.
Proof.
  intros H k. unfold decls_of_ws. destruct (doc_of_sim _ _ k H) as [|d d' [_ Hd]]; [reflexivity|].
  rewrite (member_names_sim _ _ Hd). reflexivity.
Qed.

Lemma item_for_sim ws ws' stem cls a : ws_sim ws ws' -> item_for ws stem cls a = item_for ws' stem cls a.
Proof.
  intro H. unfold item_for, class_uri.
  destruct (doc_of_sim _ _ (upper cls) H) as [|d d' [E _]]; [reflexivity|]. rewrite E. reflexivity.
Qed.

Lemma right_of_dot_sim idx up up' : Forall2 step_sim up up' -> right_of_dot idx up = right_of_dot idx up'.
Proof. destruct 1 as [|[j q] [j' q'] l l' [_ Hq] _]; [reflexivity|]. cbn [right_of_dot]. cbn [snd] in Hq. rewrite (is_dot_sim _ _ Hq). reflexivity. Qed.

Lemma prepare_sim ws ws' d d' p : ws_sim ws ws' -> doc_sim d d' -> prepare ws d p = prepare ws' d' p.
Proof.
  intros H [Es Ht]. unfold prepare. cbv zeta. rewrite <- (flat_methods_sim _ _ Ht). destruct (negb (flat_methods (snd d))); [reflexivity|].
  pose proof (descend_sim p _ _ Ht) as HS. pose proof (path_up_sim p _ _ Ht) as HP.
  destruct (chain_for_sim _ _ _ _ Ht HS) as [|ch ch' Hc]; [reflexivity|].
  destruct HP as [|[idx enc] [idx' enc'] up up' [Hi He] Hup]; [reflexivity|]. cbn [fst snd] in Hi, He. subst idx'.
  rewrite <- (right_of_dot_sim _ _ _ Hup). destruct (right_of_dot idx up); [reflexivity|].
  destruct (lookup_sim _ _ _ _ Hc (nsx_ci _ _ He)) as [|[T a] [T' a'] [HT Ha]].
  - rewrite (foreign_sim _ _ Ht). reflexivity.
  - cbn [fst snd] in HT, Ha. subst a'. rewrite <- Es, <- (cls_str_sim _ _ HT), (item_for_sim _ _ _ _ _ H). reflexivity.
Qed.

Lemma class_item_sim ws ws' k : ws_sim ws ws' -> class_item ws k = class_item ws' k.
Proof.
  intro H. unfold class_item. destruct (doc_of_sim _ _ k H) as [|d d' Hd]; [reflexivity|].
  rewrite <- (find_in_sim _ _ _ _ (hroot_of_sim _ _ Hd) (ci_eq_refl k)). destruct Hd as [E Ht]. rewrite <- E.
  destruct (find_in (HierTree.root_of d) k); [reflexivity|]. rewrite (foreign_parent_sim _ _ Ht). reflexivity.
Qed.

Lemma class_items_sim ws ws' ks : ws_sim ws ws' -> class_items ws ks = class_items ws' ks.
Proof. intro H. induction ks as [|k r IH]; [reflexivity|]. cbn [class_items]. rewrite (class_item_sim _ _ k H), IH. reflexivity. Qed.

Lemma member_item_sim ws ws' it k : ws_sim ws ws' -> member_item ws it k = member_item ws' it k.
Proof.
  intro H. unfold member_item. destruct (doc_of_sim _ _ k H) as [|d d' Hd]; [reflexivity|].
  pose proof (hroot_of_sim _ _ Hd) as HR. rewrite <- (find_in_sim _ _ _ _ HR (ci_eq_refl (i_name it))), <- (cls_str_sim _ _ HR).
  destruct (find_in (HierTree.root_of d) (i_name it)); [|reflexivity].
  destruct (doc_of_sim _ _ (upper (cls_str (HierTree.root_of d))) H) as [|e e' [E _]]; [reflexivity|]. rewrite E. reflexivity.
Qed.

Lemma class_of_item_sim ws ws' it : ws_sim ws ws' -> class_of_item ws it = class_of_item ws' it.
Proof.
  intro H. unfold class_of_item. destruct (doc_of_sim _ _ (upper (i_uri it)) H) as [|d d' Hd]; [reflexivity|].
  apply (hroot_of_sim _ _ Hd).
Qed.

Lemma supertypes_of_sim ws ws' tr tr' it : ws_sim ws ws' -> ftree_sim tr tr' ->
  supertypes_of ws tr it = supertypes_of ws' tr' it.
Proof.
  intros H Ht. unfold supertypes_of. rewrite <- (fsupertypes_sim _ _ _ Ht), <- (class_items_sim _ _ _ H), <- (class_of_item_sim _ _ _ H).
  destruct (i_kind it); try reflexivity;
    (destruct (class_of_item ws it) as [c|]; [|reflexivity];
     rewrite <- (member_supertypes_sim _ _ _ _ c (i_name it) Ht (decls_of_ws_sim _ _ H));
     destruct (F.member_supertypes tr (decls_of_ws ws) c (i_name it)) as [[q|]| |]; try reflexivity;
     rewrite <- (key_of_sim _ _ q Ht), (member_item_sim _ _ _ _ H); reflexivity).
Qed.

Lemma subtypes_of_sim ws ws' tr tr' it : ws_sim ws ws' -> ftree_sim tr tr' ->
  subtypes_of ws tr it = subtypes_of ws' tr' it.
Proof.
  intros H Ht. unfold subtypes_of. rewrite <- (fsubtypes_sim _ _ _ Ht), <- (class_items_sim _ _ _ H), <- (class_of_item_sim _ _ _ H).
  destruct (i_kind it); try reflexivity;
    (destruct (class_of_item ws it) as [c|]; [|reflexivity];
     rewrite <- (member_subtypes_sim _ _ _ _ c (i_name it) Ht (decls_of_ws_sim _ _ H));
     destruct (F.member_subtypes tr (decls_of_ws ws) c (i_name it)) as [ps| |]; try reflexivity;
     do 2 f_equal; apply flat_map_ext; intro q; rewrite <- (key_of_sim _ _ q Ht); apply member_item_sim; exact H).
Qed.

(* HIERTREE: prepare at every position of every document, supertypes and subtypes of every item: identical *)
Theorem hiertree_recase ws ws' : ws_ref ws ws' ->
  (forall a d d' p, nth_error ws a = Some d -> nth_error ws' a = Some d' -> prepare ws d p = prepare ws' d' p) /\
  (forall it, supertypes_of ws (class_tree ws) it = supertypes_of ws' (class_tree ws') it) /\
  (forall it, subtypes_of ws (class_tree ws) it = subtypes_of ws' (class_tree ws') it).
Proof.
  intro H. apply ws_ref_sim in H. split; [|split].
  - intros a d d' p E E'. apply prepare_sim; [exact H|]. pose proof (ws_nth _ _ a H) as N. rewrite E, E' in N. inversion N. assumption.
  - intro it. apply supertypes_of_sim; [exact H|apply class_tree_sim; exact H].
  - intro it. apply subtypes_of_sim; [exact H|apply class_tree_sim; exact H].
Qed.

(* the class tree itself: same relation between upper-cased names, with no forest / size hypothesis *)
Theorem hiertree_class_tree_recase ws ws' : ws_ref ws ws' ->
  forall k, F.kparent (class_tree ws) k = F.kparent (class_tree ws') k /\
            F.kchildren (class_tree ws) k = F.kchildren (class_tree ws') k /\
            F.keys (class_tree ws) = F.keys (class_tree ws').
Proof.
  intros H k. apply ws_ref_sim in H. pose proof (class_tree_sim _ _ H) as Ht. unfold F.kparent, F.kchildren, F.keys.
  rewrite <- (flookup_sim _ _ k Ht). destruct Ht as [A B]. rewrite B. split; [|split; [|reflexivity]].
  - destruct (F.lookup (class_tree ws) k) as [e|]; [|reflexivity]. rewrite <- (parent_of_sim _ _ e (conj A B)).
    destruct (F.parent_of (class_tree ws) e) as [q|]; [|reflexivity]. rewrite (key_of_sim _ _ q (conj A B)). reflexivity.
  - destruct (F.lookup (class_tree ws) k) as [e|]; [|reflexivity]. rewrite <- (kids_of_sim _ _ e (conj A B)).
    apply map_ext. intro q. apply key_of_sim. exact (conj A B).
Qed.
