(* Proofs about Model/UnusedVar.v (property C15).

   Part 1  the analyser as a function of the map alone (emit / emits), segments
   Part 2  decomposition of a file's report into per-method reports (WFtop)
   Part 3  exact characterisation of one method's warnings (guard-free: unused_exact_events), then
           the tree-level specification (mentions / unused_spec) under the per-method guards (WFmeth)
   Part 4  placement, renaming (both guard-free)
   Part 5  boolean checkers of the guards with soundness; guard_flags
   Part 6  unused_spec_ext: the property read on the source text (for refutation witnesses only)
   All statements are generic in the key function keyf (the code since /repo e5fd419: key_today =
   upper); the exactness theorem needs keyf to identify exactly the case variants (key_ci).
   History: before e5fd419 / 993bb42 the map was keyed by the spelling and string-literal terminals
   were counted; the two guards that excluded those classes (G_case, G_lit) are gone. *)
From Coq Require Import Permutation.
From GoldV Require Import Base Tokens Lexer AstKinds Tree UnusedVar.

(* ------------------------------------------------------------------------------------------ *)
(* induction over trees                                                                       *)
(* ------------------------------------------------------------------------------------------ *)

Definition node_ind' (P : node -> Prop)
  (H : forall k i r rg a ch, Forall P ch -> P (Node k i r rg a ch)) : forall n, P n :=
  fix F (n : node) : P n :=
    match n with
    | Node k i r rg a ch =>
        H k i r rg a ch
          ((fix go (l : list node) : Forall P l :=
              match l with
              | [] => Forall_nil P
              | c :: l' => Forall_cons c (F c) (go l')
              end) ch)
    end.

Lemma walk_go_eq q l :
  (fix go (l : list node) {struct l} : list ev :=
     match l with [] => [] | c :: l' => walk q c ++ go l' end) l = walk_list q l.
Proof. induction l as [|c l IH]; [reflexivity|]. cbn [walk_list]. rewrite <- IH. reflexivity. Qed.

Lemma walk_eq p n : walk p n = (p, n) :: walk_list n (nchildren n).
Proof. destruct n as [k i r rg a ch]. cbn [walk nchildren]. f_equal. apply walk_go_eq. Qed.

Lemma walk_list_app p l1 l2 : walk_list p (l1 ++ l2) = walk_list p l1 ++ walk_list p l2.
Proof. induction l1 as [|c l1 IH]; cbn [walk_list app]; [reflexivity|]. rewrite IH, app_assoc. reflexivity. Qed.

(* ------------------------------------------------------------------------------------------ *)
(* Part 1: classification of visited nodes; the analyser as a function of the map             *)
(* ------------------------------------------------------------------------------------------ *)

Definition is_method (n : node) : bool := is_kind KAstProcedure n || is_kind KAstFunction n.
Definition is_term (n : node) : bool := is_kind KAstTerminal n.
Definition is_lvar (n : node) : bool := is_kind KAstLocalVariableDeclaration n.

Definition e_method (e : ev) : bool := is_method (ev_node e).
Definition e_term (e : ev) : bool := is_term (ev_node e).
Definition e_lvar (e : ev) : bool := is_lvar (ev_node e).

Inductive ecls := CMethod | CTerm | CLvar | COther.
Definition classify (n : node) : ecls :=
  if is_method n then CMethod else if is_term n then CTerm else if is_lvar n then CLvar else COther.

Definition cmap := list (str * vinfo).

(* a terminal that can name something: anything but a string literal *)
Definition name_tok (n : node) : bool := negb (is_string_lit n).

(* one visit as a function of the map: new map, diagnostics pushed *)
Definition emit (keyf : str -> str) (c : cmap) (e : ev) : cmap * list diag :=
  let p := ev_parent e in
  let n := ev_node e in
  match classify n with
  | CMethod => ([], unused_of c)
  | CTerm =>
      if is_string_lit n then (c, []) else
      let k := keyf (nident n) in
      match alookup k c with
      | Some v => if is_left_node p n then (ainsert k (mkV (vuses v + 1) (vrange v) (vname v)) c, []) else (c, [])
      | None => (c, [])
      end
  | CLvar =>
      let k := keyf (nident n) in
      match alookup k c with
      | Some _ => (c, [mkDiag SEV_ERROR CL_DUP (ident_range n) []])
      | None => (ainsert k (mkV 0 (ident_range n) (nident n)) c, [])
      end
  | COther => (c, [])
  end.

Fixpoint emits (keyf : str -> str) (c : cmap) (l : list ev) : cmap * list diag :=
  match l with
  | [] => (c, [])
  | e :: l' => let r1 := emit keyf c e in
               let r2 := emits keyf (fst r1) l' in
               (fst r2, snd r1 ++ snd r2)
  end.

Lemma step_emit keyf s e :
  step keyf s e = mkSt (fst (emit keyf (cur s) e)) (diags s ++ snd (emit keyf (cur s) e)).
Proof.
  destruct s as [c d]. destruct e as [p n].
  unfold step, emit, classify, is_method, is_term, is_lvar, is_kind, ev_node, ev_parent, reset, check_unused,
    notify_terminal, notify_local_var.
  cbn [fst snd cur diags].
  destruct (nkind n); cbv [ak_eqb ak_idx N.eqb Pos.eqb orb]; cbn [cur diags];
    repeat match goal with
    | |- context [match alookup ?k ?c with _ => _ end] => destruct (alookup k c)
    | |- context [if is_left_node ?p ?n then _ else _] => destruct (is_left_node p n)
    | |- context [if is_string_lit ?n then _ else _] => destruct (is_string_lit n)
    end; cbn [fst snd]; rewrite ?app_nil_r; reflexivity.
Qed.

Lemma fold_emits keyf l s :
  fold_left (step keyf) l s = mkSt (fst (emits keyf (cur s) l)) (diags s ++ snd (emits keyf (cur s) l)).
Proof.
  revert s. induction l as [|e l IH]; intro s; cbn [fold_left emits fst snd].
  - rewrite app_nil_r. destruct s; reflexivity.
  - rewrite IH, step_emit. cbn [cur diags]. rewrite app_assoc. reflexivity.
Qed.

(* the report produced from map c by the visits l followed by notify_end *)
Definition out (keyf : str -> str) (c : cmap) (l : list ev) : list diag :=
  snd (emits keyf c l) ++ unused_of (fst (emits keyf c l)).

Lemma analyze_out keyf file : analyze keyf file = out keyf [] (events file).
Proof. unfold analyze, run, out, check_unused. rewrite fold_emits. reflexivity. Qed.

Lemma emits_app keyf c l1 l2 :
  emits keyf c (l1 ++ l2) =
  (fst (emits keyf (fst (emits keyf c l1)) l2), snd (emits keyf c l1) ++ snd (emits keyf (fst (emits keyf c l1)) l2)).
Proof.
  revert c. induction l1 as [|e l1 IH]; intro c; cbn [emits app fst snd].
  - destruct (emits keyf c l2); reflexivity.
  - rewrite IH. cbn [fst snd]. rewrite app_assoc. reflexivity.
Qed.

Lemma out_app keyf c l1 l2 :
  out keyf c (l1 ++ l2) = snd (emits keyf c l1) ++ out keyf (fst (emits keyf c l1)) l2.
Proof. unfold out. rewrite emits_app. cbn [fst snd]. rewrite app_assoc. reflexivity. Qed.

Lemma classify_method n : is_method n = true -> classify n = CMethod.
Proof. unfold classify. intros ->. reflexivity. Qed.

Lemma emit_method keyf c e : e_method e = true -> emit keyf c e = ([], unused_of c).
Proof. unfold emit, e_method. intro H. rewrite (classify_method _ H). reflexivity. Qed.

(* a method node flushes the map: what precedes it and what follows it are independent *)
Lemma out_method keyf c e l : e_method e = true -> out keyf c (e :: l) = unused_of c ++ out keyf [] l.
Proof. intro H. unfold out. cbn [emits]. rewrite (emit_method _ _ _ H). cbn [fst snd]. rewrite app_assoc. reflexivity. Qed.

Lemma out_split keyf c l1 e l2 :
  e_method e = true -> out keyf c (l1 ++ e :: l2) = out keyf c l1 ++ out keyf [] (e :: l2).
Proof.
  intro H. rewrite out_app, !(out_method _ _ _ _ H). cbn [unused_of flat_map app].
  unfold out at 2. rewrite !app_assoc. reflexivity.
Qed.

(* ------------------------------------------------------------------------------------------ *)
(* small facts about kinds and association lists                                              *)
(* ------------------------------------------------------------------------------------------ *)

Lemma classify_spec n :
  match classify n with
  | CMethod => is_method n = true
  | CTerm => is_method n = false /\ is_term n = true
  | CLvar => is_method n = false /\ is_term n = false /\ is_lvar n = true
  | COther => is_method n = false /\ is_term n = false /\ is_lvar n = false
  end.
Proof.
  unfold classify. destruct (is_method n); [reflexivity|].
  destruct (is_term n); [split; reflexivity|]. destruct (is_lvar n); repeat split; reflexivity.
Qed.

Lemma kinds_exclusive n :
  (is_method n = true -> is_term n = false /\ is_lvar n = false) /\
  (is_term n = true -> is_method n = false /\ is_lvar n = false) /\
  (is_lvar n = true -> is_method n = false /\ is_term n = false).
Proof.
  unfold is_method, is_term, is_lvar, is_kind.
  destruct (nkind n); cbv [ak_eqb ak_idx N.eqb Pos.eqb orb]; repeat split; congruence.
Qed.

Lemma classify_term n : is_term n = true -> classify n = CTerm.
Proof.
  intro H. unfold classify. destruct (proj1 (proj2 (kinds_exclusive n)) H) as [-> _]. rewrite H. reflexivity.
Qed.

Lemma classify_lvar n : is_lvar n = true -> classify n = CLvar.
Proof.
  intro H. unfold classify. destruct (proj2 (proj2 (kinds_exclusive n)) H) as [-> ->]. rewrite H. reflexivity.
Qed.

Lemma classify_other n : is_method n = false -> is_term n = false -> is_lvar n = false -> classify n = COther.
Proof. unfold classify. intros -> -> ->. reflexivity. Qed.

Lemma alookup_some_in {V} k (c : list (str * V)) v : alookup k c = Some v -> In k (map fst c).
Proof.
  induction c as [|[k' v'] c IH]; cbn [alookup map fst In]; [discriminate|].
  destruct (str_eqb k k') eqn:E; intro H.
  - left. symmetry. apply str_eqb_eq. exact E.
  - right. apply IH. exact H.
Qed.

Lemma alookup_none_notin {V} k (c : list (str * V)) : alookup k c = None -> ~ In k (map fst c).
Proof.
  induction c as [|[k' v'] c IH]; cbn [alookup map fst In]; [tauto|].
  destruct (str_eqb k k') eqn:E; [discriminate|]. intros H [H1|H1].
  - subst k'. rewrite str_eqb_refl in E. discriminate.
  - exact (IH H H1).
Qed.

Lemma alookup_notin_none {V} k (c : list (str * V)) : ~ In k (map fst c) -> alookup k c = None.
Proof.
  intro H. destruct (alookup k c) eqn:E; [|reflexivity]. exfalso. apply H. eapply alookup_some_in. exact E.
Qed.

Lemma ainsert_absent {V} k (v : V) c : alookup k c = None -> ainsert k v c = c ++ [(k, v)].
Proof.
  induction c as [|[k' v'] c IH]; cbn [alookup ainsert app]; [reflexivity|].
  destruct (str_eqb k k'); [discriminate|]. intro H. rewrite (IH H). reflexivity.
Qed.

Lemma ainsert_present {V} k (v v0 : V) c :
  alookup k c = Some v0 ->
  exists c1 c2, c = c1 ++ (k, v0) :: c2 /\ ~ In k (map fst c1) /\ ainsert k v c = c1 ++ (k, v) :: c2.
Proof.
  induction c as [|[k' v'] c IH]; cbn [alookup ainsert]; [discriminate|].
  destruct (str_eqb k k') eqn:E; intro H.
  - apply str_eqb_eq in E. subst k'. inversion H; subst v'. exists [], c. repeat split. intros [].
  - destruct (IH H) as (c1 & c2 & -> & Hn & Hi). exists ((k', v') :: c1), c2. repeat split.
    + cbn [map fst In]. intros [H1|H1]; [|exact (Hn H1)]. subst k'. rewrite str_eqb_refl in E. discriminate.
    + rewrite Hi. reflexivity.
Qed.

Lemma ainsert_keys_present {V} k (v v0 : V) c :
  alookup k c = Some v0 -> map fst (ainsert k v c) = map fst c.
Proof.
  intro H. destruct (ainsert_present k v v0 c H) as (c1 & c2 & -> & _ & ->).
  rewrite !map_app. reflexivity.
Qed.

(* ------------------------------------------------------------------------------------------ *)
(* Part 2: a file's report is the union of its methods' reports                               *)
(* ------------------------------------------------------------------------------------------ *)

(* the root's children = leading non-methods, then (method, the non-methods that follow it)* *)
Fixpoint split_methods (l : list node) : list node * list (node * list node) :=
  match l with
  | [] => ([], [])
  | n :: l' => let r := split_methods l' in
               if is_method n then ([], (n, fst r) :: snd r) else (n :: fst r, snd r)
  end.

Definition methods (file : node) : list node := filter is_method (nchildren file).

Lemma split_methods_methods l : map fst (snd (split_methods l)) = filter is_method l.
Proof.
  induction l as [|n l IH]; [reflexivity|]. cbn [split_methods filter].
  destruct (is_method n); cbn [fst snd map]; rewrite IH; reflexivity.
Qed.

(* keys under which the local declarations among the visits l are (or would be) stored *)
Definition decl_keys (keyf : str -> str) (l : list ev) : list str :=
  map (fun e => keyf (nident (ev_node e))) (filter e_lvar l).

Lemma decl_keys_app keyf l1 l2 : decl_keys keyf (l1 ++ l2) = decl_keys keyf l1 ++ decl_keys keyf l2.
Proof. unfold decl_keys. rewrite filter_app, map_app. reflexivity. Qed.

(* a visit that neither resets nor declares *)
Definition quiet_ev (e : ev) : Prop := e_method e = false /\ e_lvar e = false.

(* a visit that leaves a map with the given keys unchanged *)
Definition inert_ev (keyf : str -> str) (keys : list str) (e : ev) : Prop :=
  e_method e = false /\ e_lvar e = false /\
  (e_term e = true -> is_string_lit (ev_node e) = false -> In (keyf (nident (ev_node e))) keys ->
   is_left_node (ev_parent e) (ev_node e) = false).

Lemma inert_ev_incl keyf keys keys' e :
  (forall k, In k keys' -> In k keys) -> inert_ev keyf keys e -> inert_ev keyf keys' e.
Proof. intros Hi (H1 & H2 & H3). repeat split; auto. Qed.

Lemma quiet_inert keyf e : quiet_ev e -> inert_ev keyf [] e.
Proof. intros (H1 & H2). repeat split; auto. intros _ _ []. Qed.

Lemma emit_inert keyf c e : inert_ev keyf (map fst c) e -> emit keyf c e = (c, []).
Proof.
  intros (Hm & Hl & Ht). unfold emit. unfold e_method, e_lvar, e_term in *.
  pose proof (classify_spec (ev_node e)) as Hc. destruct (classify (ev_node e)).
  - congruence.
  - destruct Hc as [_ Hc]. destruct (is_string_lit (ev_node e)) eqn:Es; [reflexivity|].
    destruct (alookup _ c) eqn:E; [|reflexivity].
    rewrite (Ht Hc eq_refl (alookup_some_in _ _ _ E)). reflexivity.
  - destruct Hc as (_ & _ & Hc). congruence.
  - reflexivity.
Qed.

Lemma emits_inert keyf c l : Forall (inert_ev keyf (map fst c)) l -> emits keyf c l = (c, []).
Proof.
  induction 1 as [|e l He _ IH]; [reflexivity|]. cbn [emits]. rewrite (emit_inert _ _ _ He). cbn [fst snd].
  rewrite IH. reflexivity.
Qed.

Lemma emit_keys keyf c e k :
  In k (map fst (fst (emit keyf c e))) -> In k (map fst c) \/ (e_lvar e = true /\ k = keyf (nident (ev_node e))).
Proof.
  unfold emit, e_lvar. pose proof (classify_spec (ev_node e)) as Hc. destruct (classify (ev_node e)); cbn [fst map In].
  - tauto.
  - destruct (is_string_lit _); cbn [fst]; [tauto|]. destruct (alookup _ c) eqn:E; cbn [fst]; [|tauto].
    destruct (is_left_node _ _); cbn [fst]; [|tauto]. rewrite (ainsert_keys_present _ _ _ _ E). tauto.
  - destruct Hc as (_ & _ & Hc). destruct (alookup _ c) eqn:E; cbn [fst]; [tauto|].
    rewrite (ainsert_absent _ _ _ E), map_app, in_app_iff. cbn [map fst In]. intros [H|[H|[]]]; [tauto|]. right. split; [exact Hc|congruence].
  - tauto.
Qed.

Lemma emits_keys keyf l : forall c k,
  In k (map fst (fst (emits keyf c l))) -> In k (map fst c) \/ In k (decl_keys keyf l).
Proof.
  induction l as [|e l IH]; intros c k; cbn [emits fst]; [tauto|].
  intro H. apply IH in H. destruct H as [H|H].
  - apply emit_keys in H. destruct H as [H|[H1 H2]]; [tauto|]. right. unfold decl_keys. cbn [filter]. rewrite H1. left. congruence.
  - right. unfold decl_keys in *. cbn [filter]. destruct (e_lvar e); [right|]; exact H.
Qed.

(* the report of one method: the visits below the method node, from an empty map *)
Definition method_report (keyf : str -> str) (m : node) : list diag :=
  out keyf [] (walk_list m (nchildren m)).

Definition solo (m : node) : node := Node KAstRoot [] 0 range0 [] [m].

Lemma out_walk_method keyf c p m l :
  is_method m = true ->
  out keyf c (walk p m ++ l) = unused_of c ++ out keyf [] (walk_list m (nchildren m) ++ l).
Proof. intro H. rewrite walk_eq. cbn [app]. apply out_method. exact H. Qed.

(* a method's report is what the analyser says about the method alone *)
Lemma analyze_solo keyf m : is_method m = true -> analyze keyf (solo m) = method_report keyf m.
Proof.
  intro H. rewrite analyze_out. unfold events, solo. cbn [nchildren walk_list].
  rewrite (out_walk_method _ _ _ _ _ H), app_nil_r. reflexivity.
Qed.

Definition trailing_inert (keyf : str -> str) (file : node) (mT : node * list node) : Prop :=
  Forall (fun t => Forall (inert_ev keyf (decl_keys keyf (walk file (fst mT)))) (walk file t)) (snd mT).

Lemma decomp_gen keyf file : forall l c,
  Forall (fun t => Forall (inert_ev keyf (map fst c)) (walk file t)) (fst (split_methods l)) ->
  Forall (trailing_inert keyf file) (snd (split_methods l)) ->
  out keyf c (walk_list file l) =
  unused_of c ++ flat_map (fun mT => method_report keyf (fst mT)) (snd (split_methods l)).
Proof.
  induction l as [|n l IH]; intros c Hpre Hsegs.
  - cbn. unfold out. cbn. rewrite app_nil_r. reflexivity.
  - cbn [split_methods walk_list] in *. destruct (is_method n) eqn:Hm; cbn [fst snd flat_map] in *.
    + rewrite (out_walk_method _ _ _ _ _ Hm). f_equal. rewrite out_app.
      inversion Hsegs as [|? ? Hh Ht]; subst.
      rewrite IH; [| |exact Ht].
      * unfold method_report, out. rewrite !app_assoc. reflexivity.
      * unfold trailing_inert in Hh. cbn [fst snd] in Hh. eapply Forall_impl; [|exact Hh].
        intros t Hf. eapply Forall_impl; [|exact Hf]. intros e. apply inert_ev_incl.
        intros k Hk. apply emits_keys in Hk. destruct Hk as [[]|Hk].
        rewrite walk_eq. unfold decl_keys in *. cbn [filter]. unfold e_lvar at 1. cbn [ev_node snd].
        destruct (proj1 (kinds_exclusive n) Hm) as [_ ->]. exact Hk.
    + rewrite out_app. inversion Hpre as [|? ? Hh Ht]; subst.
      rewrite (emits_inert _ _ _ Hh). cbn [fst snd app]. apply IH; assumption.
Qed.

(* WFtop: what must hold OUTSIDE the methods for the report to be per-method:
   (a) the declarations before the first method contain no method node and no local declaration;
   (b) the non-method declarations that follow a method m contain no method node, no local
       declaration, and no terminal (other than a string literal) that the analyser would count as
       a use of a local of m. *)
Definition WFtop (keyf : str -> str) (file : node) : Prop :=
  Forall (fun t => Forall quiet_ev (walk file t)) (fst (split_methods (nchildren file))) /\
  Forall (trailing_inert keyf file) (snd (split_methods (nchildren file))).

Theorem report_decomposes keyf file :
  WFtop keyf file -> analyze keyf file = flat_map (method_report keyf) (methods file).
Proof.
  intros [H1 H2]. rewrite analyze_out. unfold events. rewrite decomp_gen; [| |exact H2].
  - cbn [unused_of flat_map app]. unfold methods. rewrite <- split_methods_methods.
    rewrite flat_map_concat_map, (flat_map_concat_map _ (map fst _)), map_map. reflexivity.
  - eapply Forall_impl; [|exact H1]. intros t Hf. eapply Forall_impl; [|exact Hf]. intros e. apply quiet_inert.
Qed.

Lemma Permutation_filter {A} (f : A -> bool) l l' : Permutation l l' -> Permutation (filter f l) (filter f l').
Proof.
  induction 1; cbn [filter].
  - constructor.
  - destruct (f x); [constructor|]; assumption.
  - destruct (f x), (f y); try apply perm_swap; apply Permutation_refl.
  - eapply Permutation_trans; eassumption.
Qed.

(* permuting the top-level declarations permutes the report, as long as both arrangements are WFtop *)
Theorem report_per_method keyf file file' :
  Permutation (nchildren file) (nchildren file') -> WFtop keyf file -> WFtop keyf file' ->
  Permutation (analyze keyf file) (analyze keyf file').
Proof.
  intros Hp H1 H2. rewrite (report_decomposes _ _ H1), (report_decomposes _ _ H2).
  apply Permutation_flat_map. unfold methods. apply Permutation_filter. exact Hp.
Qed.

(* ------------------------------------------------------------------------------------------ *)
(* Part 3a: what exactly the analyser reports for a stretch of visits without method nodes    *)
(*          (guard-free)                                                                      *)
(* ------------------------------------------------------------------------------------------ *)

(* the visit e is counted as a use of the variable stored under key k *)
Definition is_use (keyf : str -> str) (k : str) (e : ev) : bool :=
  e_term e && name_tok (ev_node e) && str_eqb (keyf (nident (ev_node e))) k && is_left_node (ev_parent e) (ev_node e).

Definition touched (keyf : str -> str) (k : str) (l : list ev) : bool := existsb (is_use keyf k) l.

Definition warn_of (k : str) (r : range) : diag := mkDiag SEV_WARNING CL_UNUSED r k.

Definition survivor (keyf : str -> str) (l : list ev) (kv : str * vinfo) : list diag :=
  if (vuses (snd kv) =? 0) && negb (touched keyf (fst kv) l) then [warn_of (vname (snd kv)) (vrange (snd kv))] else [].

(* entries already in the map: still unused at the end iff unused so far and not used in l *)
Definition survivors (keyf : str -> str) (c : cmap) (l : list ev) : list diag := flat_map (survivor keyf l) c.

Definition mem_str (k : str) (l : list str) : bool := existsb (str_eqb k) l.

(* declarations met in l: the FIRST declaration of a key is reported iff no use FOLLOWS it;
   a repeated declaration is never reported unused (it gets the "already declared" error) *)
Fixpoint fresh_warns (keyf : str -> str) (seen : list str) (l : list ev) : list diag :=
  match l with
  | [] => []
  | e :: l' =>
      if e_lvar e then
        let k := keyf (nident (ev_node e)) in
        if mem_str k seen then fresh_warns keyf seen l'
        else (if touched keyf k l' then [] else [warn_of (nident (ev_node e)) (ident_range (ev_node e))])
             ++ fresh_warns keyf (seen ++ [k]) l'
      else fresh_warns keyf seen l'
  end.

Lemma mem_str_in k l : mem_str k l = true <-> In k l.
Proof.
  unfold mem_str. rewrite existsb_exists. split.
  - intros (x & Hx & E). apply str_eqb_eq in E. subst. exact Hx.
  - intro H. exists k. split; [exact H|apply str_eqb_refl].
Qed.

Lemma survivors_nil keyf c : survivors keyf c [] = unused_of c.
Proof.
  unfold survivors, unused_of. apply flat_map_ext. intro kv. unfold survivor, touched, warn_of. cbn [existsb negb].
  rewrite andb_true_r. reflexivity.
Qed.

Lemma survivors_app keyf c1 c2 l : survivors keyf (c1 ++ c2) l = survivors keyf c1 l ++ survivors keyf c2 l.
Proof. unfold survivors. apply flat_map_app. Qed.

Lemma survivors_cons keyf kv c l : survivors keyf (kv :: c) l = survivor keyf l kv ++ survivors keyf c l.
Proof. reflexivity. Qed.

Lemma survivors_cons_nouse keyf c e l :
  (forall k, In k (map fst c) -> is_use keyf k e = false) -> survivors keyf c (e :: l) = survivors keyf c l.
Proof.
  unfold survivors. induction c as [|kv c IH]; intro H; [reflexivity|]. cbn [flat_map].
  rewrite IH by (intros k Hk; apply H; right; exact Hk). f_equal.
  unfold survivor, touched. cbn [existsb]. rewrite (H (fst kv)) by (left; reflexivity). reflexivity.
Qed.

Lemma is_use_nonterm keyf k e : e_term e = false -> is_use keyf k e = false.
Proof. unfold is_use. intros ->. reflexivity. Qed.

Lemma NoDup_snoc {A} (l : list A) a : NoDup l -> ~ In a l -> NoDup (l ++ [a]).
Proof.
  intros H1 H2. eapply Permutation_NoDup; [apply Permutation_cons_append|]. constructor; assumption.
Qed.

Lemma fresh_warns_nolvar keyf seen e l : e_lvar e = false -> fresh_warns keyf seen (e :: l) = fresh_warns keyf seen l.
Proof. intro H. cbn [fresh_warns]. rewrite H. reflexivity. Qed.

Theorem unused_exact_events keyf l :
  Forall (fun e => e_method e = false) l -> forall c, NoDup (map fst c) ->
  unused_of (fst (emits keyf c l)) = survivors keyf c l ++ fresh_warns keyf (map fst c) l.
Proof.
  induction 1 as [|e l Hm _ IH]; intros c Hnd.
  - cbn [emits fst fresh_warns]. rewrite survivors_nil, app_nil_r. reflexivity.
  - cbn [emits fst]. unfold emit. unfold e_method in Hm.
    pose proof (classify_spec (ev_node e)) as Hc. destruct (classify (ev_node e)).
    + congruence.
    + (* a terminal *)
      destruct Hc as [_ Ht].
      assert (Hl : e_lvar e = false) by (apply (proj1 (proj2 (kinds_exclusive _)) Ht)).
      rewrite (fresh_warns_nolvar _ _ _ _ Hl).
      destruct (is_string_lit (ev_node e)) eqn:Es.
      { cbn [fst]. rewrite IH by exact Hnd. f_equal. symmetry. apply survivors_cons_nouse.
        intros k' _. unfold is_use, name_tok. rewrite Es. cbn [negb]. rewrite andb_false_r. reflexivity. }
      set (k := keyf (nident (ev_node e))).
      destruct (alookup k c) as [v|] eqn:E.
      * destruct (is_left_node (ev_parent e) (ev_node e)) eqn:El; cbn [fst].
        -- destruct (ainsert_present k (mkV (vuses v + 1) (vrange v) (vname v)) v c E) as (c1 & c2 & Hc & Hn1 & Hi).
           rewrite Hi. rewrite IH.
           2:{ rewrite <- Hi, (ainsert_keys_present _ _ _ _ E). exact Hnd. }
           assert (Hn2 : ~ In k (map fst c2)).
           { subst c. rewrite map_app in Hnd. cbn [map fst] in Hnd. apply NoDup_remove_2 in Hnd.
             intro Hin. apply Hnd. apply in_or_app. right. exact Hin. }
           assert (Hother : forall c' : cmap, ~ In k (map fst c') -> forall k', In k' (map fst c') -> is_use keyf k' e = false).
           { intros c' Hn k' Hk'. unfold is_use. fold k. destruct (str_eqb k k') eqn:Ek; [|rewrite andb_false_r; reflexivity].
             apply str_eqb_eq in Ek. subst k'. contradiction. }
           assert (Hk : is_use keyf k e = true).
           { unfold is_use, name_tok. fold k. unfold e_term. rewrite Ht, Es, str_eqb_refl, El. reflexivity. }
           replace (map fst (c1 ++ (k, mkV (vuses v + 1) (vrange v) (vname v)) :: c2)) with (map fst c)
             by (subst c; rewrite !map_app; reflexivity).
           f_equal. subst c. rewrite !survivors_app, !survivors_cons.
           rewrite (survivors_cons_nouse _ c1 e l (Hother c1 Hn1)), (survivors_cons_nouse _ c2 e l (Hother c2 Hn2)).
           f_equal. f_equal. unfold survivor, touched. cbn [fst snd vuses existsb]. rewrite Hk. cbn [orb negb].
           rewrite andb_false_r. replace (vuses v + 1 =? 0) with false; [reflexivity|].
           symmetry. apply N.eqb_neq. lia.
        -- rewrite IH by exact Hnd. f_equal. symmetry. apply survivors_cons_nouse.
           intros k' _. unfold is_use. rewrite El. apply andb_false_r.
      * cbn [fst]. rewrite IH by exact Hnd. f_equal. symmetry. apply survivors_cons_nouse.
        intros k' Hk'. unfold is_use. fold k. destruct (str_eqb k k') eqn:Ek; [|rewrite andb_false_r; reflexivity].
        apply str_eqb_eq in Ek. subst k'. exfalso. exact (alookup_none_notin _ _ E Hk').
    + (* a local declaration *)
      destruct Hc as (_ & Ht & Hl). cbn [fresh_warns]. unfold e_lvar at 1. rewrite Hl.
      set (k := keyf (nident (ev_node e))).
      assert (Hs : survivors keyf c (e :: l) = survivors keyf c l).
      { apply survivors_cons_nouse. intros k' _. apply is_use_nonterm. exact Ht. }
      destruct (alookup k c) as [v|] eqn:E; cbn [fst].
      * rewrite (proj2 (mem_str_in k (map fst c)) (alookup_some_in _ _ _ E)).
        rewrite IH by exact Hnd. rewrite Hs. reflexivity.
      * pose proof (alookup_none_notin _ _ E) as Hn.
        destruct (mem_str k (map fst c)) eqn:Em; [apply mem_str_in in Em; contradiction|].
        rewrite (ainsert_absent _ _ _ E). rewrite IH.
        2:{ rewrite map_app. cbn [map fst]. apply NoDup_snoc; assumption. }
        rewrite survivors_app, Hs, map_app. cbn [map fst]. rewrite <- app_assoc. f_equal. f_equal.
        rewrite survivors_cons. unfold survivors at 1. cbn [flat_map]. rewrite app_nil_r. unfold survivor. cbn [fst snd vuses vrange vname].
        cbn [N.eqb andb]. destruct (touched keyf k l); reflexivity.
    + (* anything else *)
      destruct Hc as (_ & Ht & Hl). cbn [fst]. rewrite (fresh_warns_nolvar _ _ _ _ Hl).
      rewrite IH by exact Hnd. f_equal. symmetry. apply survivors_cons_nouse.
      intros k' _. apply is_use_nonterm. exact Ht.
Qed.

(* the visits of a stretch without method nodes only ever push "already declared" errors *)
Lemma emits_diags_dup keyf l :
  Forall (fun e => e_method e = false) l -> forall c,
  Forall (fun d => is_unused_diag d = false) (snd (emits keyf c l)).
Proof.
  induction 1 as [|e l Hm _ IH]; intro c; cbn [emits snd]; [constructor|].
  apply Forall_app. split; [|apply IH].
  unfold emit. unfold e_method in Hm. pose proof (classify_spec (ev_node e)) as Hc.
  destruct (classify (ev_node e)); [congruence| | |constructor].
  - destruct (is_string_lit _); [constructor|]. destruct (alookup _ c); [destruct (is_left_node _ _)|]; constructor.
  - destruct (alookup _ c); cbn [snd]; repeat constructor.
Qed.

Lemma unused_of_all_U c : Forall (fun d => is_unused_diag d = true) (unused_of c).
Proof.
  unfold unused_of. induction c as [|kv c IH]; cbn [flat_map]; [constructor|].
  apply Forall_app. split; [|exact IH]. destruct (vuses (snd kv) =? 0); repeat constructor.
Qed.

Lemma filter_all_false {A} (f : A -> bool) l : Forall (fun x => f x = false) l -> filter f l = [].
Proof. induction 1 as [|x l H _ IH]; [reflexivity|]. cbn [filter]. rewrite H. exact IH. Qed.

Lemma filter_all_true {A} (f : A -> bool) l : Forall (fun x => f x = true) l -> filter f l = l.
Proof. induction 1 as [|x l H _ IH]; [reflexivity|]. cbn [filter]. rewrite H, IH. reflexivity. Qed.

(* the "Unused var" warnings of a stretch of visits without method nodes, from an empty map *)
Theorem unused_of_stretch keyf l :
  Forall (fun e => e_method e = false) l ->
  filter is_unused_diag (out keyf [] l) = fresh_warns keyf [] l.
Proof.
  intro H. unfold out. rewrite filter_app, (filter_all_false _ _ (emits_diags_dup keyf l H [])).
  rewrite (filter_all_true _ _ (unused_of_all_U _)). cbn [app].
  rewrite (unused_exact_events keyf l H [] (NoDup_nil _)). reflexivity.
Qed.

(* without repeated declarations: every declaration is reported iff no use follows it *)
Fixpoint order_warns (keyf : str -> str) (l : list ev) : list diag :=
  match l with
  | [] => []
  | e :: l' =>
      (if e_lvar e
       then if touched keyf (keyf (nident (ev_node e))) l' then []
            else [warn_of (nident (ev_node e)) (ident_range (ev_node e))]
       else []) ++ order_warns keyf l'
  end.

Lemma fresh_order keyf l : forall seen,
  NoDup (seen ++ decl_keys keyf l) -> fresh_warns keyf seen l = order_warns keyf l.
Proof.
  induction l as [|e l IH]; intros seen Hnd; [reflexivity|]. cbn [fresh_warns order_warns].
  unfold decl_keys in Hnd. cbn [filter] in Hnd. destruct (e_lvar e) eqn:El.
  - cbn [map] in Hnd. destruct (mem_str _ seen) eqn:Em.
    + apply mem_str_in in Em. apply NoDup_remove_2 in Hnd. exfalso. apply Hnd. apply in_or_app. left. exact Em.
    + f_equal. apply IH. rewrite <- app_assoc. exact Hnd.
  - cbn [app]. apply IH. exact Hnd.
Qed.

(* ------------------------------------------------------------------------------------------ *)
(* Part 3b: the specification on trees                                                        *)
(* ------------------------------------------------------------------------------------------ *)

(* the nodes below a node, each with its parent AND its index among the parent's children *)
Definition iev := (node * nat * node)%type.
Definition erase (e : iev) : ev := (fst (fst e), snd e).

Fixpoint iwalk (p : node) (i : nat) (n : node) {struct n} : list iev :=
  (p, i, n) ::
  match n with
  | Node _ _ _ _ _ ch =>
      (fix go (j : nat) (l : list node) {struct l} : list iev :=
         match l with
         | [] => []
         | c :: l' => iwalk n j c ++ go (S j) l'
         end) 0%nat ch
  end.

Fixpoint iwalk_list (p : node) (j : nat) (l : list node) : list iev :=
  match l with
  | [] => []
  | c :: l' => iwalk p j c ++ iwalk_list p (S j) l'
  end.

Lemma iwalk_go_eq q l : forall j,
  (fix go (j : nat) (l : list node) {struct l} : list iev :=
     match l with [] => [] | c :: l' => iwalk q j c ++ go (S j) l' end) j l = iwalk_list q j l.
Proof. induction l as [|c l IH]; intro j; [reflexivity|]. cbn [iwalk_list]. rewrite <- IH. reflexivity. Qed.

Lemma iwalk_eq p i n : iwalk p i n = (p, i, n) :: iwalk_list n 0 (nchildren n).
Proof. destruct n as [k id r rg a ch]. cbn [iwalk nchildren]. f_equal. apply iwalk_go_eq. Qed.

Lemma iwalk_list_erase q l :
  Forall (fun c => forall p i, map erase (iwalk p i c) = walk p c) l ->
  forall j, map erase (iwalk_list q j l) = walk_list q l.
Proof.
  induction 1 as [|c l Hc _ IH]; intro j; [reflexivity|]. cbn [iwalk_list walk_list].
  rewrite map_app, Hc, IH. reflexivity.
Qed.

(* the indexed enumeration is the walker's visit list with the indices added *)
Lemma iwalk_erase n : forall p i, map erase (iwalk p i n) = walk p n.
Proof.
  induction n as [k id r rg a ch IH] using node_ind'. intros p i.
  rewrite iwalk_eq, walk_eq. cbn [map erase fst snd nchildren]. f_equal. apply iwalk_list_erase. exact IH.
Qed.

Lemma iwalk_list_erase' q j l : map erase (iwalk_list q j l) = walk_list q l.
Proof. apply iwalk_list_erase. apply Forall_forall. intros c _. apply iwalk_erase. Qed.

Lemma iwalk_list_child l :
  Forall (fun n => forall q j p i t, In (p, i, t) (iwalk q j n) ->
                   (p, i, t) = (q, j, n) \/ nth_error (nchildren p) i = Some t) l ->
  forall q j p i t, In (p, i, t) (iwalk_list q j l) ->
  (p = q /\ exists d, i = (j + d)%nat /\ nth_error l d = Some t) \/ nth_error (nchildren p) i = Some t.
Proof.
  induction 1 as [|c l Hc _ IH]; intros q j p i t Hin; [destruct Hin|].
  cbn [iwalk_list] in Hin. apply in_app_or in Hin. destruct Hin as [Hin|Hin].
  - apply Hc in Hin. destruct Hin as [E|E]; [|right; exact E].
    inversion E; subst. left. split; [reflexivity|]. exists 0%nat. split; [lia|reflexivity].
  - apply IH in Hin. destruct Hin as [(-> & d & -> & Hd)|E]; [|right; exact E].
    left. split; [reflexivity|]. exists (S d). split; [lia|exact Hd].
Qed.

(* every indexed entry (p,i,t) other than the starting one really is: t = the i-th child of p *)
Lemma iwalk_child n : forall q j p i t, In (p, i, t) (iwalk q j n) ->
  (p, i, t) = (q, j, n) \/ nth_error (nchildren p) i = Some t.
Proof.
  induction n as [k id r rg a ch IH] using node_ind'. intros q j p i t Hin.
  rewrite iwalk_eq in Hin. destruct Hin as [E|Hin]; [left; symmetry; exact E|]. right.
  apply (iwalk_list_child _ IH) in Hin. destruct Hin as [(-> & d & -> & Hd)|E]; [|exact E]. exact Hd.
Qed.

Lemma sub_child m p i t : In (p, i, t) (iwalk_list m 0 (nchildren m)) -> nth_error (nchildren p) i = Some t.
Proof.
  intro Hin. apply iwalk_list_child in Hin.
  - destruct Hin as [(-> & d & -> & Hd)|E]; [exact Hd|exact E].
  - apply Forall_forall. intros c _. apply iwalk_child.
Qed.

(* "the member name to the right of a dot": a child other than the first of a '.' binary op *)
Definition right_of_dot (p : node) (i : nat) : bool :=
  is_kind KAstBinaryOp p && op_is_dot p && negb (Nat.eqb i 0).

Definition is_mention (x : str) (e : iev) : bool :=
  let t := snd e in
  is_term t && name_tok t && negb (right_of_dot (fst (fst e)) (snd (fst e))) && ci_eqb (nident t) x.

Definition sub_ievents (m : node) : list iev := iwalk_list m 0 (nchildren m).
Definition sub_events (m : node) : list ev := walk_list m (nchildren m).

(* some statement of the method mentions x other than as a member name after a dot, ignoring case *)
Definition mentions (m : node) (x : str) : bool := existsb (is_mention x) (sub_ievents m).

Definition local_decls (m : node) : list node := map ev_node (filter e_lvar (sub_events m)).

(* one warning per unmentioned local, on the declared name *)
Definition method_spec (m : node) : list diag :=
  flat_map (fun d => if mentions m (nident d) then [] else [warn_of (nident d) (ident_range d)])
           (local_decls m).

Definition unused_spec (file : node) : list diag :=
  flat_map method_spec (methods file).

(* ---- the per-method guards ---- *)

(* the key function identifies exactly the names that differ in letter case only *)
Definition key_ci (keyf : str -> str) : Prop := forall a b, keyf a = keyf b <-> upper a = upper b.

Lemma key_ci_upper : key_ci upper.
Proof. intros a b. tauto. Qed.
Lemma key_ci_today : key_ci key_today.
Proof. exact key_ci_upper. Qed.

(* no method node inside a method *)
Definition G_flat (m : node) : Prop := Forall (fun e => e_method e = false) (sub_events m).
(* no two declarations stored under one key *)
Definition G_dup (keyf : str -> str) (m : node) : Prop := NoDup (decl_keys keyf (sub_events m)).
(* a variable counted as used before its declaration is visited is also used after it *)
Definition G_order (keyf : str -> str) (m : node) : Prop :=
  forall l1 e l2, sub_events m = l1 ++ e :: l2 -> e_lvar e = true ->
  touched keyf (keyf (nident (ev_node e))) l1 = true -> touched keyf (keyf (nident (ev_node e))) l2 = true.
(* positions are sane: a later operand of a '.' does not have both the text and the start
   position of the first operand (is_left_node compares "ident:pos" strings) *)
Definition G_pos (m : node) : Prop :=
  forall p i t l, In (p, i, t) (sub_ievents m) -> is_term t = true ->
  is_kind KAstBinaryOp p = true -> op_is_dot p = true -> i <> 0%nat ->
  hd_error (nchildren p) = Some l -> ident_pos_eqb l t = false.

Definition WFmeth (keyf : str -> str) (m : node) : Prop :=
  G_flat m /\ G_dup keyf m /\ G_order keyf m /\ G_pos m.

Lemma pos_eqb_refl a : pos_eqb a a = true.
Proof. unfold pos_eqb. rewrite !N.eqb_refl. reflexivity. Qed.

Lemma ident_pos_eqb_refl n : ident_pos_eqb n n = true.
Proof. unfold ident_pos_eqb. rewrite str_eqb_refl, pos_eqb_refl. reflexivity. Qed.

(* under G_pos the analyser's "is the left node" is "is not to the right of a dot" *)
Lemma is_left_right m p i t :
  G_pos m -> In (p, i, t) (sub_ievents m) -> is_term t = true ->
  is_left_node p t = negb (right_of_dot p i).
Proof.
  intros Hg Hin Ht. pose proof (sub_child _ _ _ _ Hin) as Hc.
  unfold is_left_node, right_of_dot. destruct (is_kind KAstBinaryOp p) eqn:Ek; [|reflexivity].
  destruct (op_is_dot p) eqn:Ed; [|reflexivity]. cbn [negb andb].
  destruct i as [|i].
  - cbn [Nat.eqb negb]. destruct (nchildren p) as [|l ch]; [reflexivity|]. cbn [nth_error] in Hc.
    inversion Hc; subst. apply ident_pos_eqb_refl.
  - cbn [Nat.eqb negb]. destruct (nchildren p) as [|l ch] eqn:Ech; [discriminate|].
    apply (Hg p (S i) t l Hin Ht Ek Ed); [discriminate|]. rewrite Ech. reflexivity.
Qed.

Lemma existsb_ext_in {A} (f g : A -> bool) l : (forall a, In a l -> f a = g a) -> existsb f l = existsb g l.
Proof.
  induction l as [|a l IH]; intro H; [reflexivity|]. cbn [existsb].
  rewrite (H a (or_introl eq_refl)), IH; [reflexivity|]. intros b Hb. apply H. right. exact Hb.
Qed.

Lemma existsb_map {A B} (f : B -> bool) (h : A -> B) l : existsb f (map h l) = existsb (fun a => f (h a)) l.
Proof. induction l as [|a l IH]; [reflexivity|]. cbn [map existsb]. rewrite IH. reflexivity. Qed.

Lemma sub_erase m : map erase (sub_ievents m) = sub_events m.
Proof. apply iwalk_list_erase'. Qed.

(* for a declared local d: "mentioned somewhere in the method" = "counted as used somewhere" *)
Lemma mentions_touched keyf m x :
  key_ci keyf -> G_pos m ->
  mentions m x = touched keyf (keyf x) (sub_events m).
Proof.
  intros Hk Hp. unfold mentions, touched. rewrite <- sub_erase, existsb_map.
  apply existsb_ext_in. intros [[p i] t] Hin. unfold is_mention, is_use, e_term, erase. cbn [fst snd ev_node ev_parent].
  destruct (is_term t) eqn:Ht; [|reflexivity]. cbn [andb].
  rewrite <- (is_left_right m p i t Hp Hin Ht).
  replace (str_eqb (keyf (nident t)) (keyf x)) with (ci_eqb (nident t) x).
  - destruct (name_tok t), (is_left_node p t), (ci_eqb (nident t) x); reflexivity.
  - unfold ci_eqb. destruct (str_eqb (upper (nident t)) (upper x)) eqn:E.
    + apply str_eqb_eq in E. apply Hk in E. rewrite E. symmetry. apply str_eqb_refl.
    + symmetry. apply str_eqb_neq. intro H. apply Hk in H. rewrite H, str_eqb_refl in E. discriminate.
Qed.

Lemma order_spec_gen keyf (ment : node -> bool) B : forall l1 l2, B = l1 ++ l2 ->
  (forall l1 e l2, B = l1 ++ e :: l2 -> e_lvar e = true ->
                   touched keyf (keyf (nident (ev_node e))) l2 = ment (ev_node e)) ->
  order_warns keyf l2 =
  flat_map (fun d => if ment d then [] else [warn_of (nident d) (ident_range d)])
           (map ev_node (filter e_lvar l2)).
Proof.
  intros l1 l2. revert l1. induction l2 as [|e l2 IH]; intros l1 HB H; [reflexivity|].
  cbn [order_warns filter]. destruct (e_lvar e) eqn:El.
  - cbn [map flat_map]. rewrite (H l1 e l2 HB El). f_equal.
    apply (IH (l1 ++ [e])); [rewrite <- app_assoc; exact HB|exact H].
  - cbn [app]. apply (IH (l1 ++ [e])); [rewrite <- app_assoc; exact HB|exact H].
Qed.

(* one method, analysed alone: its warnings are exactly the specified ones *)
Theorem method_exact keyf m :
  key_ci keyf -> WFmeth keyf m ->
  filter is_unused_diag (method_report keyf m) = method_spec m.
Proof.
  intros Hk (Hf & Hd & Ho & Hp). unfold method_report. fold (sub_events m).
  rewrite (unused_of_stretch keyf _ Hf). rewrite (fresh_order keyf _ []) by exact Hd.
  unfold method_spec, local_decls.
  apply (order_spec_gen keyf (fun d => mentions m (nident d)) (sub_events m) []); [reflexivity|].
  intros l1 e l2 HB El.
  rewrite (mentions_touched keyf m _ Hk Hp). rewrite HB. unfold touched.
  rewrite existsb_app. cbn [existsb]. fold (touched keyf (keyf (nident (ev_node e))) l1).
  fold (touched keyf (keyf (nident (ev_node e))) l2).
  rewrite (is_use_nonterm keyf _ e) by (apply (proj2 (proj2 (kinds_exclusive _)) El)). cbn [orb].
  destruct (touched keyf _ l1) eqn:E1; [|reflexivity]. rewrite (Ho l1 e l2 HB El E1). reflexivity.
Qed.

(* ---- the whole file ---- *)

Definition WFm (keyf : str -> str) (file : node) : Prop :=
  WFtop keyf file /\ forall m, In m (methods file) -> WFmeth keyf m.

Lemma filter_flat_map {A B} (f : B -> bool) (g : A -> list B) l :
  filter f (flat_map g l) = flat_map (fun a => filter f (g a)) l.
Proof. induction l as [|a l IH]; [reflexivity|]. cbn [flat_map]. rewrite filter_app, IH. reflexivity. Qed.

Lemma flat_map_ext_in' {A B} (f g : A -> list B) l : (forall a, In a l -> f a = g a) -> flat_map f l = flat_map g l.
Proof.
  induction l as [|a l IH]; intro H; [reflexivity|]. cbn [flat_map].
  rewrite (H a (or_introl eq_refl)), IH; [reflexivity|]. intros b Hb. apply H. right. exact Hb.
Qed.

Theorem unused_exact_eq keyf file :
  key_ci keyf -> WFm keyf file -> unused_vars keyf file = unused_spec file.
Proof.
  intros Hk [Ht Hm]. unfold unused_vars, unused_spec. rewrite (report_decomposes _ _ Ht), filter_flat_map.
  apply flat_map_ext_in'. intros m Hin. apply method_exact; [exact Hk|apply Hm; exact Hin].
Qed.

Theorem unused_exact keyf file :
  key_ci keyf -> WFm keyf file -> Permutation (unused_vars keyf file) (unused_spec file).
Proof. intros Hk H. rewrite (unused_exact_eq _ _ Hk H). apply Permutation_refl. Qed.

(* ------------------------------------------------------------------------------------------ *)
(* Part 4a: placement (guard-free): every diagnostic sits on the name token of a local        *)
(*          declaration of the file, and an "Unused var" warning prints the declared spelling   *)
(* ------------------------------------------------------------------------------------------ *)

Definition diag_from (P : ev -> Prop) (d : diag) : Prop :=
  exists e, P e /\ e_lvar e = true /\ drange d = ident_range (ev_node e) /\
            (is_unused_diag d = true -> dkey d = nident (ev_node e) /\ dsev d = SEV_WARNING) /\
            (is_unused_diag d = false -> dsev d = SEV_ERROR).

Definition entry_from (keyf : str -> str) (P : ev -> Prop) (kv : str * vinfo) : Prop :=
  exists e, P e /\ e_lvar e = true /\ fst kv = keyf (nident (ev_node e)) /\
            vrange (snd kv) = ident_range (ev_node e) /\ vname (snd kv) = nident (ev_node e).

Lemma unused_of_from keyf (P : ev -> Prop) c : Forall (entry_from keyf P) c -> Forall (diag_from P) (unused_of c).
Proof.
  induction 1 as [|kv c (e & He & Hl & Hk & Hr & Hn) _ IH]; [constructor|]. unfold unused_of. cbn [flat_map].
  apply Forall_app. split; [|exact IH]. destruct (vuses (snd kv) =? 0); [|constructor].
  constructor; [|constructor]. exists e. repeat split; try assumption; cbn; try discriminate.
Qed.

Lemma emit_from keyf (P : ev -> Prop) c e :
  P e -> Forall (entry_from keyf P) c ->
  Forall (entry_from keyf P) (fst (emit keyf c e)) /\ Forall (diag_from P) (snd (emit keyf c e)).
Proof.
  intros He Hc. unfold emit. pose proof (classify_spec (ev_node e)) as Hcl. destruct (classify (ev_node e)); cbn [fst snd].
  - split; [constructor|eapply unused_of_from; exact Hc].
  - destruct (is_string_lit _); [split; [exact Hc|constructor]|].
    destruct (alookup _ c) as [v|] eqn:E; [|split; [exact Hc|constructor]].
    destruct (is_left_node _ _); cbn [fst snd]; [|split; [exact Hc|constructor]]. split; [|constructor].
    destruct (ainsert_present _ (mkV (vuses v + 1) (vrange v) (vname v)) v c E) as (c1 & c2 & -> & _ & ->).
    apply Forall_app in Hc. destruct Hc as [H1 H2]. inversion H2 as [|? ? (e' & Hp & Hl & Hk & Hr & Hn) H3]; subst.
    apply Forall_app. split; [exact H1|]. constructor; [|exact H3]. exists e'. repeat split; assumption.
  - destruct Hcl as (_ & _ & Hl). destruct (alookup _ c) as [v|] eqn:E; cbn [fst snd].
    + split; [exact Hc|]. constructor; [|constructor]. exists e. repeat split; try assumption; cbn; discriminate.
    + split; [|constructor]. rewrite (ainsert_absent _ _ _ E). apply Forall_app. split; [exact Hc|].
      constructor; [|constructor]. exists e. repeat split; assumption.
  - split; [exact Hc|constructor].
Qed.

Lemma emits_from keyf (P : ev -> Prop) l : forall c,
  (forall e, In e l -> P e) -> Forall (entry_from keyf P) c ->
  Forall (entry_from keyf P) (fst (emits keyf c l)) /\ Forall (diag_from P) (snd (emits keyf c l)).
Proof.
  induction l as [|e l IH]; intros c HP Hc; cbn [emits fst snd]; [split; [exact Hc|constructor]|].
  destruct (emit_from keyf P c e (HP e (or_introl eq_refl)) Hc) as [H1 H2].
  destruct (IH _ (fun e' H => HP e' (or_intror H)) H1) as [H3 H4].
  split; [exact H3|]. apply Forall_app. split; assumption.
Qed.

Theorem placement keyf file :
  Forall (diag_from (fun e => In e (events file))) (analyze keyf file).
Proof.
  rewrite analyze_out. unfold out.
  destruct (emits_from keyf (fun e => In e (events file)) (events file) [] (fun e H => H) (Forall_nil _)) as [H1 H2].
  apply Forall_app. split; [exact H2|]. eapply unused_of_from. exact H1.
Qed.

(* ------------------------------------------------------------------------------------------ *)
(* Part 4b: renaming.  Applying an injective map to every name of the tree maps the keys of    *)
(*          the warnings and changes nothing else (guard-free).                               *)
(* ------------------------------------------------------------------------------------------ *)

Fixpoint map_idents (f : str -> str) (n : node) : node :=
  match n with Node k id r rg a ch => Node k (f id) r rg a (map (map_idents f) ch) end.

Definition emap (f : str -> str) (e : ev) : ev := (map_idents f (fst e), map_idents f (snd e)).

Definition dmap (f : str -> str) (d : diag) : diag :=
  mkDiag (dsev d) (dclass d) (drange d) (if is_unused_diag d then f (dkey d) else dkey d).

(* keys through g, recorded names through f *)
Definition cren (f g : str -> str) (c : cmap) : cmap :=
  map (fun kv => (g (fst kv), mkV (vuses (snd kv)) (vrange (snd kv)) (f (vname (snd kv))))) c.

Definition injective (f : str -> str) : Prop := forall a b, f a = f b -> a = b.

Lemma mi_kind f n : nkind (map_idents f n) = nkind n. Proof. destruct n; reflexivity. Qed.
Lemma mi_ident f n : nident (map_idents f n) = f (nident n). Proof. destruct n; reflexivity. Qed.
Lemma mi_range f n : nrange (map_idents f n) = nrange n. Proof. destruct n; reflexivity. Qed.
Lemma mi_attrs f n : nattrs (map_idents f n) = nattrs n. Proof. destruct n; reflexivity. Qed.
Lemma mi_children f n : nchildren (map_idents f n) = map (map_idents f) (nchildren n). Proof. destruct n; reflexivity. Qed.

Lemma mi_is_kind f k n : is_kind k (map_idents f n) = is_kind k n.
Proof. unfold is_kind. rewrite mi_kind. reflexivity. Qed.

Lemma mi_classify f n : classify (map_idents f n) = classify n.
Proof. unfold classify, is_method, is_term, is_lvar. rewrite !mi_is_kind. reflexivity. Qed.

Lemma mi_ident_range f n : ident_range (map_idents f n) = ident_range n.
Proof. unfold ident_range, attr_tok. rewrite mi_attrs, mi_range. reflexivity. Qed.

Lemma mi_is_string_lit f n : is_string_lit (map_idents f n) = is_string_lit n.
Proof. unfold is_string_lit, attr_tok. rewrite mi_attrs. reflexivity. Qed.

Lemma mi_op_is_dot f n : op_is_dot (map_idents f n) = op_is_dot n.
Proof. unfold op_is_dot, attr_tok. rewrite mi_attrs. reflexivity. Qed.

Lemma str_eqb_inj f a b : injective f -> str_eqb (f a) (f b) = str_eqb a b.
Proof.
  intro Hf. destruct (str_eqb a b) eqn:E.
  - apply str_eqb_eq in E. subst. apply str_eqb_refl.
  - apply str_eqb_neq. intro H. apply Hf in H. apply str_eqb_neq in E. contradiction.
Qed.

Lemma mi_ident_pos_eqb f a b : injective f -> ident_pos_eqb (map_idents f a) (map_idents f b) = ident_pos_eqb a b.
Proof. intro Hf. unfold ident_pos_eqb. rewrite !mi_ident, !mi_range, (str_eqb_inj _ _ _ Hf). reflexivity. Qed.

Lemma mi_is_left f p n : injective f -> is_left_node (map_idents f p) (map_idents f n) = is_left_node p n.
Proof.
  intro Hf. unfold is_left_node. rewrite mi_is_kind, mi_op_is_dot, mi_children.
  destruct (nchildren p); cbn [map]; [reflexivity|]. rewrite (mi_ident_pos_eqb _ _ _ Hf). reflexivity.
Qed.

Lemma mi_walk_list f q l :
  Forall (fun n => forall p, walk (map_idents f p) (map_idents f n) = map (emap f) (walk p n)) l ->
  walk_list (map_idents f q) (map (map_idents f) l) = map (emap f) (walk_list q l).
Proof.
  induction 1 as [|c l Hc _ IH]; [reflexivity|]. cbn [map walk_list]. rewrite map_app, Hc, IH. reflexivity.
Qed.

Lemma mi_walk f n : forall p, walk (map_idents f p) (map_idents f n) = map (emap f) (walk p n).
Proof.
  induction n as [k id r rg a ch IH] using node_ind'. intro p.
  rewrite (walk_eq p), (walk_eq (map_idents f p)). cbn [map]. f_equal.
  rewrite mi_children. apply mi_walk_list. exact IH.
Qed.

Lemma mi_events f file : events (map_idents f file) = map (emap f) (events file).
Proof.
  unfold events. rewrite mi_children. apply mi_walk_list. apply Forall_forall. intros n _. apply mi_walk.
Qed.

Definition vren (f : str -> str) (v : vinfo) : vinfo := mkV (vuses v) (vrange v) (f (vname v)).

Lemma cren_alookup f g k c : injective g -> alookup (g k) (cren f g c) = option_map (vren f) (alookup k c).
Proof.
  intro Hg. induction c as [|[k' v] c IH]; [reflexivity|]. cbn [cren map alookup fst snd].
  rewrite (str_eqb_inj _ _ _ Hg). destruct (str_eqb k k'); [reflexivity|exact IH].
Qed.

Lemma cren_ainsert f g k v c : injective g -> ainsert (g k) (vren f v) (cren f g c) = cren f g (ainsert k v c).
Proof.
  intro Hg. induction c as [|[k' v'] c IH]; [reflexivity|]. cbn [cren map ainsert fst snd].
  rewrite (str_eqb_inj _ _ _ Hg). destruct (str_eqb k k'); [reflexivity|]. cbn [map fst snd].
  f_equal. exact IH.
Qed.

Lemma cren_unused_of f g c : unused_of (cren f g c) = map (dmap f) (unused_of c).
Proof.
  unfold unused_of. induction c as [|kv c IH]; [reflexivity|]. cbn [cren map flat_map fst snd vuses].
  rewrite map_app. f_equal; [|exact IH]. destruct (vuses (snd kv) =? 0); reflexivity.
Qed.

Lemma emit_rename keyf f g c e :
  injective f -> injective g -> (forall s, keyf (f s) = g (keyf s)) ->
  emit keyf (cren f g c) (emap f e) = (cren f g (fst (emit keyf c e)), map (dmap f) (snd (emit keyf c e))).
Proof.
  intros Hf Hg Hfg. destruct e as [p n]. unfold emit, emap, ev_node, ev_parent. cbn [fst snd].
  rewrite mi_classify. destruct (classify n).
  - cbn [fst snd cren map]. rewrite cren_unused_of. reflexivity.
  - rewrite mi_is_string_lit. destruct (is_string_lit n); [reflexivity|].
    rewrite mi_ident, Hfg, (cren_alookup _ _ _ _ Hg). destruct (alookup _ c) as [v|]; [|reflexivity].
    cbn [option_map]. rewrite (mi_is_left _ _ _ Hf). destruct (is_left_node p n); [|reflexivity].
    cbn [fst snd map]. rewrite <- (cren_ainsert _ _ _ _ _ Hg). reflexivity.
  - rewrite mi_ident, Hfg, (cren_alookup _ _ _ _ Hg), mi_ident_range. destruct (alookup _ c); [reflexivity|].
    cbn [option_map fst snd map]. rewrite <- (cren_ainsert _ _ _ _ _ Hg). reflexivity.
  - reflexivity.
Qed.

Lemma emits_rename keyf f g l : forall c,
  injective f -> injective g -> (forall s, keyf (f s) = g (keyf s)) ->
  emits keyf (cren f g c) (map (emap f) l) = (cren f g (fst (emits keyf c l)), map (dmap f) (snd (emits keyf c l))).
Proof.
  induction l as [|e l IH]; intros c Hf Hg Hfg; [reflexivity|]. cbn [map emits].
  rewrite (emit_rename keyf f g c e Hf Hg Hfg). cbn [fst snd]. rewrite (IH _ Hf Hg Hfg). cbn [fst snd].
  rewrite map_app. reflexivity.
Qed.

(* f renames the names, g is what f does to their keys *)
Theorem rename_equivariant keyf f g file :
  injective f -> injective g -> (forall s, keyf (f s) = g (keyf s)) ->
  analyze keyf (map_idents f file) = map (dmap f) (analyze keyf file).
Proof.
  intros Hf Hg Hfg. rewrite !analyze_out, mi_events. unfold out.
  change (@nil (str * vinfo)) with (cren f g []) at 1 2.
  rewrite (emits_rename keyf f g _ [] Hf Hg Hfg). cbn [fst snd]. rewrite cren_unused_of, map_app. reflexivity.
Qed.

(* an instance for case-insensitive keys: every name gets the prefix c *)
Definition prefix_name (c : N) (s : str) : str := c :: s.

Lemma prefix_injective c : injective (prefix_name c).
Proof. intros a b H. inversion H. reflexivity. Qed.

Theorem rename_prefix_upper c file :
  analyze upper (map_idents (prefix_name c) file) = map (dmap (prefix_name c)) (analyze upper file).
Proof.
  apply (rename_equivariant upper (prefix_name c) (prefix_name (upc c)));
    [apply prefix_injective|apply prefix_injective|reflexivity].
Qed.

(* the names occurring in a tree *)
Fixpoint idents (n : node) : list str :=
  match n with Node _ id _ _ _ ch => id :: flat_map idents ch end.

(* ------------------------------------------------------------------------------------------ *)
(* Part 5: the guards are decidable; boolean checkers with soundness (used for the concrete   *)
(*         examples of Properties/C15.v and, extracted, to measure how many generated programs *)
(*         satisfy the guards)                                                                *)
(* ------------------------------------------------------------------------------------------ *)

Definition g_flat_b (m : node) : bool := forallb (fun e => negb (e_method e)) (sub_events m).

Fixpoint nodup_b (l : list str) : bool :=
  match l with [] => true | a :: l' => negb (mem_str a l') && nodup_b l' end.

Definition g_dup_b (keyf : str -> str) (m : node) : bool := nodup_b (decl_keys keyf (sub_events m)).

Fixpoint order_b (keyf : str -> str) (l1 l2 : list ev) : bool :=
  match l2 with
  | [] => true
  | e :: l2' =>
      (if e_lvar e
       then implb (touched keyf (keyf (nident (ev_node e))) l1) (touched keyf (keyf (nident (ev_node e))) l2')
       else true) && order_b keyf (l1 ++ [e]) l2'
  end.

Definition g_order_b (keyf : str -> str) (m : node) : bool := order_b keyf [] (sub_events m).

Definition pos_b (e : iev) : bool :=
  let p := fst (fst e) in let i := snd (fst e) in let t := snd e in
  implb (is_term t && is_kind KAstBinaryOp p && op_is_dot p && negb (Nat.eqb i 0))
        (match hd_error (nchildren p) with Some l => negb (ident_pos_eqb l t) | None => true end).
Definition g_pos_b (m : node) : bool := forallb pos_b (sub_ievents m).

Definition wfmeth_b (keyf : str -> str) (m : node) : bool :=
  g_flat_b m && g_dup_b keyf m && g_order_b keyf m && g_pos_b m.

Definition quiet_b (e : ev) : bool := negb (e_method e) && negb (e_lvar e).
Definition inert_b (keyf : str -> str) (keys : list str) (e : ev) : bool :=
  negb (e_method e) && negb (e_lvar e) &&
  implb (e_term e && name_tok (ev_node e) && mem_str (keyf (nident (ev_node e))) keys) (negb (is_left_node (ev_parent e) (ev_node e))).

Definition wftop_b (keyf : str -> str) (file : node) : bool :=
  let r := split_methods (nchildren file) in
  forallb (fun t => forallb quiet_b (walk file t)) (fst r) &&
  forallb (fun mT => forallb (fun t => forallb (inert_b keyf (decl_keys keyf (walk file (fst mT)))) (walk file t)) (snd mT)) (snd r).

Definition wfm_b (keyf : str -> str) (file : node) : bool :=
  wftop_b keyf file && forallb (wfmeth_b keyf) (methods file).

Lemma forallb_Forall {A} (f : A -> bool) (P : A -> Prop) l :
  (forall a, f a = true -> P a) -> forallb f l = true -> Forall P l.
Proof.
  intros H Hf. apply Forall_forall. intros a Ha. apply H. rewrite forallb_forall in Hf. apply Hf. exact Ha.
Qed.

Lemma negb_true b : negb b = true -> b = false.
Proof. destruct b; [discriminate|reflexivity]. Qed.

Lemma nodup_b_sound l : nodup_b l = true -> NoDup l.
Proof.
  induction l as [|a l IH]; intro H; [constructor|]. cbn [nodup_b] in H. apply andb_true_iff in H. destruct H as [H1 H2].
  constructor; [|apply IH; exact H2]. intro Hin. apply mem_str_in in Hin. rewrite Hin in H1. discriminate.
Qed.

Lemma order_b_sound keyf l2 : forall l1, order_b keyf l1 l2 = true ->
  forall a e b, l2 = a ++ e :: b -> e_lvar e = true ->
  touched keyf (keyf (nident (ev_node e))) (l1 ++ a) = true -> touched keyf (keyf (nident (ev_node e))) b = true.
Proof.
  induction l2 as [|x l2 IH]; intros l1 H a e b E El Ht.
  - destruct a; discriminate.
  - cbn [order_b] in H. apply andb_true_iff in H. destruct H as [H1 H2]. destruct a as [|y a].
    + cbn [app] in E. inversion E; subst. rewrite El in H1. rewrite app_nil_r in Ht. rewrite Ht in H1. exact H1.
    + cbn [app] in E. inversion E; subst. apply (IH (l1 ++ [y]) H2 a e b eq_refl El). rewrite <- app_assoc. exact Ht.
Qed.

Lemma wfmeth_b_sound keyf m : wfmeth_b keyf m = true -> WFmeth keyf m.
Proof.
  unfold wfmeth_b. rewrite !andb_true_iff. intros [[[H1 H2] H3] H6]. repeat split.
  - eapply forallb_Forall; [|exact H1]. intros e. apply negb_true.
  - apply nodup_b_sound. exact H2.
  - intros l1 e l2 E El Ht. apply (order_b_sound keyf _ [] H3 l1 e l2 E El). exact Ht.
  - intros p i t l Hin Ht Hk Hd Hi Hh. unfold g_pos_b in H6. rewrite forallb_forall in H6. specialize (H6 _ Hin).
    unfold pos_b in H6. cbn [fst snd] in H6. rewrite Ht, Hk, Hd, Hh in H6.
    destruct i; [contradiction|]. cbn in H6. apply negb_true. exact H6.
Qed.

Lemma quiet_b_sound e : quiet_b e = true -> quiet_ev e.
Proof. unfold quiet_b. rewrite andb_true_iff. intros [H1 H2]. split; apply negb_true; assumption. Qed.

Lemma inert_b_sound keyf keys e : inert_b keyf keys e = true -> inert_ev keyf keys e.
Proof.
  unfold inert_b. rewrite !andb_true_iff. intros [[H1 H2] H3]. repeat split; try (apply negb_true; assumption).
  intros Ht Hs Hin. apply mem_str_in in Hin. unfold name_tok in H3. rewrite Ht, Hs, Hin in H3. apply negb_true. exact H3.
Qed.

Lemma wftop_b_sound keyf file : wftop_b keyf file = true -> WFtop keyf file.
Proof.
  unfold wftop_b, WFtop. rewrite andb_true_iff. intros [H1 H2]. split.
  - eapply forallb_Forall; [|exact H1]. intros t Ht. eapply forallb_Forall; [|exact Ht]. apply quiet_b_sound.
  - eapply forallb_Forall; [|exact H2]. intros mT Hm. unfold trailing_inert.
    eapply forallb_Forall; [|exact Hm]. intros t Ht. eapply forallb_Forall; [|exact Ht]. apply inert_b_sound.
Qed.

Theorem wfm_b_sound keyf file : wfm_b keyf file = true -> WFm keyf file.
Proof.
  unfold wfm_b. rewrite andb_true_iff. intros [H1 H2]. split; [apply wftop_b_sound; exact H1|].
  intros m Hm. apply wfmeth_b_sound. rewrite forallb_forall in H2. apply H2. exact Hm.
Qed.

(* which guards the checkers accept: [WFtop; G_flat; G_dup; G_order; G_pos] *)
Definition guard_flags (keyf : str -> str) (file : node) : list bool :=
  [ wftop_b keyf file;
    forallb g_flat_b (methods file);
    forallb (g_dup_b keyf) (methods file);
    forallb (g_order_b keyf) (methods file);
    forallb g_pos_b (methods file) ].

Lemma guard_flags_all keyf file : guard_flags keyf file = [true; true; true; true; true] -> WFm keyf file.
Proof.
  unfold guard_flags. intro H. injection H as H0 H1 H2 H3 H6. apply wfm_b_sound. unfold wfm_b. rewrite H0. cbn [andb].
  apply forallb_forall. intros m Hm. unfold wfmeth_b.
  rewrite forallb_forall in H1, H2, H3, H6.
  rewrite (H1 m Hm), (H2 m Hm), (H3 m Hm), (H6 m Hm). reflexivity.
Qed.

(* ------------------------------------------------------------------------------------------ *)
(* Part 6: the property read on the source text is stronger than the tree-level specification *)
(*         in three places, because of how the parser builds the tree:                        *)
(*         - the name of a call `x(1)` is AstMethodCall.identifier, not a child node;         *)
(*         - the counter of `for x = 1 to 3` is AstForBlock.counter_token, not a node;        *)
(*         - in `self.x[1]` the terminal x is the first child of an AstArrayAccess that is    *)
(*           the right operand of the dot, so x itself is not "to the right of a dot".        *)
(*         unused_spec_ext counts the first two as mentions and treats the third as a member  *)
(*         name.  It is used for refutation witnesses only (Properties/C15.v).                *)
(* ------------------------------------------------------------------------------------------ *)

(* (in member position?, node) for every node below n *)
Fixpoint mwalk (member : bool) (n : node) {struct n} : list (bool * node) :=
  (member, n) ::
  match n with
  | Node _ _ _ _ _ ch =>
      (fix go (first : bool) (l : list node) {struct l} : list (bool * node) :=
         match l with
         | [] => []
         | c :: l' =>
             mwalk ((is_kind KAstBinaryOp n && op_is_dot n && negb first)
                    || (is_kind KAstArrayAccess n && first && member)) c ++ go false l'
         end) true ch
  end.

Definition is_mention_ext (x : str) (e : bool * node) : bool :=
  let t := snd e in
  (is_term t && name_tok t && negb (fst e) && ci_eqb (nident t) x)
  || (is_kind KAstMethodCall t && negb (fst e) && ci_eqb (nident t) x)
  || (is_kind KAstForBlock t && match attr_tok K_ident t with Some k => ci_eqb (tval k) x | None => false end).

Definition mentions_ext (m : node) (x : str) : bool :=
  existsb (is_mention_ext x) (flat_map (mwalk false) (nchildren m)).

Definition unused_spec_ext (file : node) : list diag :=
  flat_map (fun m => flat_map (fun d => if mentions_ext m (nident d) then []
                                         else [warn_of (nident d) (ident_range d)]) (local_decls m))
           (methods file).
