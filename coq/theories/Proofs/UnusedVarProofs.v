(* Proofs about Model/UnusedVar.v (property C15).

   Part 1  the tree, association lists
   Part 2  what one method's analysis produces, exactly (method_report_eq), and a file's report is the
           concatenation of its method nodes' reports (report_decomposes): no hypothesis
   Part 3  the specification: the property read on the tree (stmts / locals / mentions / method_spec /
           unused_spec) and exactness: unused_vars keyf file = unused_spec file for EVERY tree and every key
           function that identifies exactly the case variants of a name (key_ci); the declarative reading of
           `mentions` (MentionsIn)
   Part 4  corollaries: per-method independence (permuting the top-level declarations, a method alone),
           placement, renaming
   Part 5  the one structural fact about parsed trees that is used to READ the statements (not to prove
           them): method nodes are children of the root (top_flat), then all_methods = methods
   All statements are generic in the key function keyf (the code: key_today = upper).
   History: until the repair of tools/c15_proposed_fix.diff the analyser filled and read one map while
   the walker advanced; the statement then needed the guards WFtop / G_flat / G_dup / G_order / G_pos and
   was false without them in five ways (Properties/C15.v, C15_old_*_refuted, on Model.analyze_old). *)
From Coq Require Import Permutation.
From GoldV Require Import Base Tokens Lexer AstKinds Tree UnusedVar.

(* ------------------------------------------------------------------------------------------ *)
(* Part 1: induction over trees, the walker, the nodes of a subtree                           *)
(* ------------------------------------------------------------------------------------------ *)

Definition node_ind' (P : node -> Prop)
  (H : forall k i r rg a ch, Forall P ch -> P (Node k i r rg a ch)) : forall n, P n :=
  fix F (n : node) : P n :=
    match n with
    | Node k i r rg a ch =>
        H k i r rg a ch
          ((fix go (l : list node) : Forall P l :=
              match l with
              | [] => Forall_nil P
              | c :: l' => Forall_cons c (F c) (go l')
              end) ch)
    end.

Lemma walk_go_eq q l :
  (fix go (l : list node) {struct l} : list ev :=
     match l with [] => [] | c :: l' => walk q c ++ go l' end) l = walk_list q l.
Proof. induction l as [|c l IH]; [reflexivity|]. cbn [walk_list]. rewrite <- IH. reflexivity. Qed.

Lemma walk_eq p n : walk p n = (p, n) :: walk_list n (nchildren n).
Proof. destruct n as [k i r rg a ch]. cbn [walk nchildren]. f_equal. apply walk_go_eq. Qed.

Lemma walk_list_app p l1 l2 : walk_list p (l1 ++ l2) = walk_list p l1 ++ walk_list p l2.
Proof. induction l1 as [|c l1 IH]; cbn [walk_list app]; [reflexivity|]. rewrite IH, app_assoc. reflexivity. Qed.

Lemma subnodes_go_eq l :
  (fix go (l : list node) {struct l} : list node :=
     match l with [] => [] | c :: l' => subnodes c ++ go l' end) l = flat_map subnodes l.
Proof. induction l as [|c l IH]; [reflexivity|]. cbn [flat_map]. rewrite <- IH. reflexivity. Qed.

Lemma subnodes_eq n : subnodes n = n :: flat_map subnodes (nchildren n).
Proof. destruct n as [k i r rg a ch]. cbn [subnodes nchildren]. rewrite subnodes_go_eq. reflexivity. Qed.

(* the nodes the walker visits below n are the nodes of n, whatever the parent *)
Lemma walk_nodes n : forall p, map ev_node (walk p n) = subnodes n.
Proof.
  induction n as [k id r rg a ch IH] using node_ind'. intro p.
  rewrite walk_eq, subnodes_eq. cbn [map ev_node snd nchildren]. f_equal.
  generalize (Node k id r rg a ch). intro q.
  induction IH as [|c l Hc _ IHl]; [reflexivity|]. cbn [walk_list flat_map]. rewrite map_app, Hc, IHl. reflexivity.
Qed.

Lemma walk_list_nodes p l : map ev_node (walk_list p l) = flat_map subnodes l.
Proof. induction l as [|c l IH]; [reflexivity|]. cbn [walk_list flat_map]. rewrite map_app, walk_nodes, IH. reflexivity. Qed.

Lemma events_nodes file : map ev_node (events file) = flat_map subnodes (nchildren file).
Proof. apply walk_list_nodes. Qed.

Definition is_term (n : node) : bool := is_kind KAstTerminal n.
Definition is_lvar (n : node) : bool := is_kind KAstLocalVariableDeclaration n.

Definition cmap := list (str * vinfo).

(* a terminal that can name something: anything but a string literal *)
Definition name_tok (n : node) : bool := negb (is_string_lit n).

Lemma kinds_exclusive n :
  (is_method n = true -> is_term n = false /\ is_lvar n = false) /\
  (is_term n = true -> is_method n = false /\ is_lvar n = false) /\
  (is_lvar n = true -> is_method n = false /\ is_term n = false).
Proof.
  unfold is_method, is_term, is_lvar, is_kind.
  destruct (nkind n); cbv [ak_eqb ak_idx N.eqb Pos.eqb orb]; repeat split; congruence.
Qed.

(* a method body node is nothing the analyser looks at *)
Lemma body_kind b :
  is_kind KAstMethodBody b = true ->
  is_lvar b = false /\ is_term b = false /\ is_kind KAstMethodCall b = false /\ is_kind KAstForBlock b = false /\
  is_kind KAstBinaryOp b = false /\ is_kind KAstArrayAccess b = false.
Proof.
  unfold is_term, is_lvar, is_kind.
  destruct (nkind b); cbv [ak_eqb ak_idx N.eqb Pos.eqb]; intro H; repeat split; congruence.
Qed.

(* ---- association lists ---- *)

Lemma alookup_some_in {V} k (c : list (str * V)) v : alookup k c = Some v -> In k (map fst c).
Proof.
  induction c as [|[k' v'] c IH]; cbn [alookup map fst In]; [discriminate|].
  destruct (str_eqb k k') eqn:E; intro H.
  - left. symmetry. apply str_eqb_eq. exact E.
  - right. apply IH. exact H.
Qed.

Lemma alookup_none_notin {V} k (c : list (str * V)) : alookup k c = None -> ~ In k (map fst c).
Proof.
  induction c as [|[k' v'] c IH]; cbn [alookup map fst In]; [tauto|].
  destruct (str_eqb k k') eqn:E; [discriminate|]. intros H [H1|H1].
  - subst k'. rewrite str_eqb_refl in E. discriminate.
  - exact (IH H H1).
Qed.

Lemma ainsert_absent {V} k (v : V) c : alookup k c = None -> ainsert k v c = c ++ [(k, v)].
Proof.
  induction c as [|[k' v'] c IH]; cbn [alookup ainsert app]; [reflexivity|].
  destruct (str_eqb k k'); [discriminate|]. intro H. rewrite (IH H). reflexivity.
Qed.

Lemma ainsert_present {V} k (v v0 : V) c :
  alookup k c = Some v0 ->
  exists c1 c2, c = c1 ++ (k, v0) :: c2 /\ ~ In k (map fst c1) /\ ainsert k v c = c1 ++ (k, v) :: c2.
Proof.
  induction c as [|[k' v'] c IH]; cbn [alookup ainsert]; [discriminate|].
  destruct (str_eqb k k') eqn:E; intro H.
  - apply str_eqb_eq in E. subst k'. inversion H; subst v'. exists [], c. repeat split. intros [].
  - destruct (IH H) as (c1 & c2 & -> & Hn & Hi). exists ((k', v') :: c1), c2. repeat split.
    + cbn [map fst In]. intros [H1|H1]; [|exact (Hn H1)]. subst k'. rewrite str_eqb_refl in E. discriminate.
    + rewrite Hi. reflexivity.
Qed.

Definition mem_str (k : str) (l : list str) : bool := existsb (str_eqb k) l.

Lemma mem_str_in k l : mem_str k l = true <-> In k l.
Proof.
  unfold mem_str. rewrite existsb_exists. split.
  - intros (x & Hx & E). apply str_eqb_eq in E. subst. exact Hx.
  - intro H. exists k. split; [exact H|apply str_eqb_refl].
Qed.

Lemma mem_str_notin k l : mem_str k l = false <-> ~ In k l.
Proof.
  split.
  - intros H Hin. apply mem_str_in in Hin. congruence.
  - intro H. destruct (mem_str k l) eqn:E; [|reflexivity]. apply mem_str_in in E. contradiction.
Qed.

Lemma NoDup_snoc {A} (l : list A) a : NoDup l -> ~ In a l -> NoDup (l ++ [a]).
Proof.
  intros H1 H2. eapply Permutation_NoDup; [apply Permutation_cons_append|]. constructor; assumption.
Qed.

Lemma flat_map_ext_in' {A B} (f g : A -> list B) l : (forall a, In a l -> f a = g a) -> flat_map f l = flat_map g l.
Proof.
  induction l as [|a l IH]; intro H; [reflexivity|]. cbn [flat_map].
  rewrite (H a (or_introl eq_refl)), IH; [reflexivity|]. intros b Hb. apply H. right. exact Hb.
Qed.

Lemma flat_map_map {A B C} (f : B -> list C) (h : A -> B) l : flat_map f (map h l) = flat_map (fun a => f (h a)) l.
Proof. induction l as [|a l IH]; [reflexivity|]. cbn [map flat_map]. rewrite IH. reflexivity. Qed.

Lemma filter_flat_map {A B} (f : B -> bool) (g : A -> list B) l :
  filter f (flat_map g l) = flat_map (fun a => filter f (g a)) l.
Proof. induction l as [|a l IH]; [reflexivity|]. cbn [flat_map]. rewrite filter_app, IH. reflexivity. Qed.

Lemma filter_all_false {A} (f : A -> bool) l : Forall (fun x => f x = false) l -> filter f l = [].
Proof. induction 1 as [|x l H _ IH]; [reflexivity|]. cbn [filter]. rewrite H. exact IH. Qed.

Lemma filter_all_true {A} (f : A -> bool) l : Forall (fun x => f x = true) l -> filter f l = l.
Proof. induction 1 as [|x l H _ IH]; [reflexivity|]. cbn [filter]. rewrite H, IH. reflexivity. Qed.

Lemma existsb_ext_in {A} (f g : A -> bool) l : (forall a, In a l -> f a = g a) -> existsb f l = existsb g l.
Proof.
  induction l as [|a l IH]; intro H; [reflexivity|]. cbn [existsb].
  rewrite (H a (or_introl eq_refl)), IH; [reflexivity|]. intros b Hb. apply H. right. exact Hb.
Qed.

Lemma existsb_map {A B} (f : B -> bool) (h : A -> B) l : existsb f (map h l) = existsb (fun a => f (h a)) l.
Proof. induction l as [|a l IH]; [reflexivity|]. cbn [map existsb]. rewrite IH. reflexivity. Qed.

Lemma existsb_flat_map {A B} (f : B -> bool) (h : A -> list B) l :
  existsb f (flat_map h l) = existsb (fun a => existsb f (h a)) l.
Proof. induction l as [|a l IH]; [reflexivity|]. cbn [flat_map existsb]. rewrite existsb_app, IH. reflexivity. Qed.

Lemma Permutation_filter {A} (f : A -> bool) l l' : Permutation l l' -> Permutation (filter f l) (filter f l').
Proof.
  induction 1; cbn [filter].
  - constructor.
  - destruct (f x); [constructor|]; assumption.
  - destruct (f x), (f y); try apply perm_swap; apply Permutation_refl.
  - eapply Permutation_trans; eassumption.
Qed.

(* ------------------------------------------------------------------------------------------ *)
(* Part 2: what one method's analysis produces; a file's report                                *)
(* ------------------------------------------------------------------------------------------ *)

Definition warn_of (k : str) (r : range) : diag := mkDiag SEV_WARNING CL_UNUSED r k.
Definition dup_diag (n : node) : diag := mkDiag SEV_ERROR CL_DUP (ident_range n) [].
Definition entry_of (keyf : str -> str) (n : node) : str * vinfo :=
  (keyf (nident n), mkV 0 (ident_range n) (nident n)).

(* the declarations that enter the map: the first one under each key ... *)
Fixpoint first_by (keyf : str -> str) (seen : list str) (l : list node) : list node :=
  match l with
  | [] => []
  | n :: l' => let k := keyf (nident n) in
               if mem_str k seen then first_by keyf seen l' else n :: first_by keyf (seen ++ [k]) l'
  end.
(* ... and those that get "Var name already declared": every later one *)
Fixpoint later_by (keyf : str -> str) (seen : list str) (l : list node) : list node :=
  match l with
  | [] => []
  | n :: l' => let k := keyf (nident n) in
               if mem_str k seen then n :: later_by keyf seen l' else later_by keyf (seen ++ [k]) l'
  end.

Lemma first_by_in keyf l : forall seen n, In n (first_by keyf seen l) -> In n l.
Proof.
  induction l as [|a l IH]; intros seen n; cbn [first_by]; [tauto|].
  destruct (mem_str _ seen); cbn [In]; intro H; [right; eapply IH; exact H|].
  destruct H as [H|H]; [left; exact H|right; eapply IH; exact H].
Qed.

Lemma later_by_in keyf l : forall seen n, In n (later_by keyf seen l) -> In n l.
Proof.
  induction l as [|a l IH]; intros seen n; cbn [later_by]; [tauto|].
  destruct (mem_str _ seen); cbn [In]; intro H; [|right; eapply IH; exact H].
  destruct H as [H|H]; [left; exact H|right; eapply IH; exact H].
Qed.

Lemma first_by_nodup keyf l : forall seen, NoDup seen ->
  NoDup (seen ++ map (fun n => keyf (nident n)) (first_by keyf seen l)).
Proof.
  induction l as [|a l IH]; intros seen Hs; cbn [first_by map]; [rewrite app_nil_r; exact Hs|].
  destruct (mem_str (keyf (nident a)) seen) eqn:E; [apply IH; exact Hs|].
  cbn [map]. replace (seen ++ keyf (nident a) :: map (fun n => keyf (nident n)) (first_by keyf (seen ++ [keyf (nident a)]) l))
    with ((seen ++ [keyf (nident a)]) ++ map (fun n => keyf (nident n)) (first_by keyf (seen ++ [keyf (nident a)]) l))
    by (rewrite <- app_assoc; reflexivity).
  apply IH. apply NoDup_snoc; [exact Hs|]. apply mem_str_notin. exact E.
Qed.

Definition decl_step (keyf : str -> str) (s : st) (n : node) : st :=
  if is_kind KAstLocalVariableDeclaration n then notify_local_var keyf s n else s.

(* collect_local_vars, exactly *)
Lemma collect_fold keyf l : forall s,
  fold_left (decl_step keyf) l s =
  mkSt (cur s ++ map (entry_of keyf) (first_by keyf (map fst (cur s)) (filter is_lvar l)))
       (diags s ++ map dup_diag (later_by keyf (map fst (cur s)) (filter is_lvar l))).
Proof.
  induction l as [|n l IH]; intro s; cbn [fold_left filter].
  - cbn [first_by later_by map]. rewrite !app_nil_r. destruct s; reflexivity.
  - unfold decl_step at 2. change (is_kind KAstLocalVariableDeclaration n) with (is_lvar n). destruct (is_lvar n) eqn:El; [|apply IH].
    rewrite IH. cbn [first_by later_by]. unfold notify_local_var.
    destruct (alookup (keyf (nident n)) (cur s)) as [v|] eqn:E; cbn [cur diags].
    + rewrite (proj2 (mem_str_in _ _) (alookup_some_in _ _ _ E)). cbn [map]. rewrite <- app_assoc. reflexivity.
    + rewrite (proj2 (mem_str_notin _ _) (alookup_none_notin _ _ E)).
      rewrite (ainsert_absent _ _ _ E), map_app. cbn [map fst]. rewrite <- app_assoc. reflexivity.
Qed.

(* some mentioned name is stored under key k *)
Definition hit (keyf : str -> str) (names : list str) (k : str) : bool :=
  existsb (fun nm => str_eqb (keyf nm) k) names.

Definition live (keyf : str -> str) (names : list str) (kv : str * vinfo) : list diag :=
  if hit keyf names (fst kv) then [] else unused_of [kv].

Lemma unused_of_app c1 c2 : unused_of (c1 ++ c2) = unused_of c1 ++ unused_of c2.
Proof. unfold unused_of. apply flat_map_app. Qed.

Lemma unused_of_flat c : unused_of c = flat_map (fun kv => unused_of [kv]) c.
Proof.
  induction c as [|kv c IH]; [reflexivity|]. change (kv :: c) with ([kv] ++ c). rewrite unused_of_app.
  cbn [flat_map app]. rewrite IH. reflexivity.
Qed.

(* count_mentions, exactly: the diagnostics are untouched; an entry is still reported afterwards iff
   it was going to be and no mentioned name has its key *)
Lemma mentions_fold keyf names : forall c d, NoDup (map fst c) ->
  diags (fold_left (notify_mention keyf) names (mkSt c d)) = d /\
  unused_of (cur (fold_left (notify_mention keyf) names (mkSt c d))) = flat_map (live keyf names) c.
Proof.
  induction names as [|nm names IH]; intros c d Hnd; cbn [fold_left].
  - split; [reflexivity|]. cbn [cur]. unfold live, hit. cbn [existsb]. apply unused_of_flat.
  - unfold notify_mention at 2 4. cbn [cur diags]. set (k := keyf nm).
    destruct (alookup k c) as [v|] eqn:E.
    + destruct (ainsert_present k (mkV (vuses v + 1) (vrange v) (vname v)) v c E) as (c1 & c2 & Hc & Hn1 & Hi).
      rewrite Hi.
      assert (Hk : map fst (c1 ++ (k, mkV (vuses v + 1) (vrange v) (vname v)) :: c2) = map fst c)
        by (rewrite Hc, !map_app; reflexivity).
      destruct (IH (c1 ++ (k, mkV (vuses v + 1) (vrange v) (vname v)) :: c2) d) as [H1 H2]; [rewrite Hk; exact Hnd|].
      split; [exact H1|]. rewrite H2. subst c. rewrite !flat_map_app. cbn [flat_map].
      assert (Hn2 : ~ In k (map fst c2)).
      { rewrite map_app in Hnd. cbn [map fst] in Hnd. apply NoDup_remove_2 in Hnd.
        intro Hin. apply Hnd. apply in_or_app. right. exact Hin. }
      assert (Hoth : forall c' : cmap, ~ In k (map fst c') -> flat_map (live keyf names) c' = flat_map (live keyf (nm :: names)) c').
      { intros c' Hn. apply flat_map_ext_in'. intros kv Hin. unfold live, hit. cbn [existsb]. fold k.
        destruct (str_eqb k (fst kv)) eqn:Ek; [|reflexivity]. apply str_eqb_eq in Ek. exfalso. apply Hn.
        rewrite Ek. apply in_map. exact Hin. }
      rewrite (Hoth c1 Hn1), (Hoth c2 Hn2). f_equal. f_equal.
      unfold live at 2. unfold hit. cbn [existsb fst]. fold k. rewrite str_eqb_refl. cbn [orb].
      unfold live. destruct (hit keyf names _); [reflexivity|]. cbn [fst]. unfold unused_of. cbn [flat_map snd vuses].
      replace (vuses v + 1 =? 0) with false; [reflexivity|]. symmetry. apply N.eqb_neq. lia.
    + destruct (IH c d Hnd) as [H1 H2]. split; [exact H1|]. rewrite H2.
      apply flat_map_ext_in'. intros kv Hin. unfold live, hit. cbn [existsb]. fold k.
      destruct (str_eqb k (fst kv)) eqn:Ek; [|reflexivity]. apply str_eqb_eq in Ek. exfalso.
      apply (alookup_none_notin _ _ E). rewrite Ek. apply in_map. exact Hin.
Qed.

(* the local declarations and the mentioned names of a method's body, as the analyser meets them *)
Definition body_lvars (m : node) : list node :=
  match method_body m with Some b => filter is_lvar (subnodes b) | None => [] end.
Definition body_names (m : node) : list str :=
  match method_body m with Some b => mention_names false b | None => [] end.

(* what the analyser says about one method: the visit of its node from an empty report *)
Definition method_report (keyf : str -> str) (m : node) : list diag := diags (analyze_method keyf st0 m).

Definition report_of (keyf : str -> str) (m : node) : list diag :=
  map dup_diag (later_by keyf [] (body_lvars m)) ++
  flat_map (fun n => if hit keyf (body_names m) (keyf (nident n)) then [] else [warn_of (nident n) (ident_range n)])
           (first_by keyf [] (body_lvars m)).

Lemma collect_eq keyf s b : collect keyf s b = fold_left (decl_step keyf) (subnodes b) s.
Proof. reflexivity. Qed.

(* analyze_method, exactly: the map is empty afterwards, the report grows by report_of *)
Lemma analyze_method_eq keyf s m : analyze_method keyf s m = mkSt [] (diags s ++ report_of keyf m).
Proof.
  unfold analyze_method, report_of, body_lvars, body_names.
  destruct (method_body m) as [b|].
  - rewrite collect_eq, collect_fold. cbn [cur diags map app].
    set (F := first_by keyf [] (filter is_lvar (subnodes b))).
    set (D := diags s ++ map dup_diag (later_by keyf [] (filter is_lvar (subnodes b)))).
    destruct (mentions_fold keyf (mention_names false b) (map (entry_of keyf) F) D) as [H1 H2].
    { rewrite map_map. cbn [entry_of fst]. apply (first_by_nodup keyf _ [] (NoDup_nil _)). }
    unfold check_unused. cbn [diags]. rewrite H1, H2. unfold D. rewrite <- app_assoc. f_equal. f_equal. f_equal.
    rewrite flat_map_map. apply flat_map_ext. intro n. unfold live, entry_of. cbn [fst].
    destruct (hit keyf _ _); reflexivity.
  - cbn [check_unused cur diags unused_of flat_map later_by first_by map app]. rewrite app_nil_r. reflexivity.
Qed.

Theorem method_report_eq keyf m : method_report keyf m = report_of keyf m.
Proof. unfold method_report. rewrite analyze_method_eq. reflexivity. Qed.

(* every method node of the tree, in the order the walker reaches them *)
Definition all_methods (file : node) : list node := filter is_method (flat_map subnodes (nchildren file)).

Lemma run_eq keyf l : forall s,
  cur s = [] ->
  run keyf l s = mkSt [] (diags s ++ flat_map (method_report keyf) (filter is_method (map ev_node l))).
Proof.
  unfold run. induction l as [|e l IH]; intros s Hs; cbn [fold_left map filter flat_map].
  - rewrite app_nil_r. destruct s as [c d]. cbn [cur] in Hs. subst c. reflexivity.
  - unfold step at 2. destruct (is_method (ev_node e)) eqn:Em.
    + rewrite analyze_method_eq, IH by reflexivity. cbn [diags flat_map]. rewrite method_report_eq, app_assoc. reflexivity.
    + apply IH. exact Hs.
Qed.

(* the report of a file is the concatenation of the reports of its method nodes: each one a function of
   that method node alone *)
Theorem report_decomposes keyf file : analyze keyf file = flat_map (method_report keyf) (all_methods file).
Proof.
  unfold analyze. rewrite run_eq by reflexivity. cbn [diags st0 app]. unfold all_methods. rewrite events_nodes. reflexivity.
Qed.

Definition solo (m : node) : node := Node KAstRoot [] 0 range0 [] [m].

(* ------------------------------------------------------------------------------------------ *)
(* Part 3: the specification (the property read on the tree) and exactness                     *)
(* ------------------------------------------------------------------------------------------ *)

(* the statements of a method: the children of its body node (the header - name, parameters, return
   type - is not a statement) *)
Definition stmts (m : node) : list node :=
  match method_body m with Some b => nchildren b | None => [] end.

(* "the member name to the right of a dot": is the child of p in member position, p being itself
   in member position or not (pm), the child being p's first child or not.
   - every operand of a '.' but the first is a member name; the first operand stands where the '.' stands
     (a.b.c read a.(b.c): b is a member name);
   - the base of an indexed member is the member name: self.x[1] *)
Definition member_pos (p : node) (pm first : bool) : bool :=
  (is_dot_op p && (negb first || pm)) || (is_kind KAstArrayAccess p && first && pm).

Lemma member_pos_child p pm first : member_pos p pm first = child_member p pm first.
Proof.
  unfold member_pos, child_member, is_dot_op, is_kind.
  destruct (nkind p), (op_is_dot p), first, pm; reflexivity.
Qed.

(* (in member position?, node) for every node below n; nothing below a terminal *)
Fixpoint mwalk (member : bool) (n : node) {struct n} : list (bool * node) :=
  (member, n) ::
  match n with
  | Node _ _ _ _ _ ch =>
      if is_term n then [] else
      (fix go (first : bool) (l : list node) {struct l} : list (bool * node) :=
         match l with
         | [] => []
         | c :: l' => mwalk (member_pos n member first) c ++ go false l'
         end) true ch
  end.

(* node t (in member position or not) mentions the name x: an identifier terminal, the name of a call
   - both unless in member position -, the counter of a for block; names compared ignoring case *)
Definition is_mention (x : str) (e : bool * node) : bool :=
  let t := snd e in
  (is_term t && name_tok t && negb (fst e) && ci_eqb (nident t) x)
  || (is_kind KAstMethodCall t && negb (fst e) && ci_eqb (nident t) x)
  || (is_kind KAstForBlock t && match attr_tok K_ident t with Some k => ci_eqb (tval k) x | None => false end).

(* some statement of the method mentions x other than as a member name after a dot, ignoring case *)
Definition mentions (m : node) (x : str) : bool := existsb (is_mention x) (flat_map (mwalk false) (stmts m)).

(* the local declarations of a method: anywhere in its statements *)
Definition local_decls (m : node) : list node := filter is_lvar (flat_map subnodes (stmts m)).

(* a name declared again (in any letter case) is not a new variable: the variable is the first declaration *)
Fixpoint distinct_ci (seen : list str) (l : list node) : list node :=
  match l with
  | [] => []
  | d :: l' => if existsb (ci_eqb (nident d)) seen then distinct_ci seen l'
               else d :: distinct_ci (seen ++ [nident d]) l'
  end.
Fixpoint repeated_ci (seen : list str) (l : list node) : list node :=
  match l with
  | [] => []
  | d :: l' => if existsb (ci_eqb (nident d)) seen then d :: repeated_ci seen l'
               else repeated_ci (seen ++ [nident d]) l'
  end.

Definition locals (m : node) : list node := distinct_ci [] (local_decls m).
Definition redeclared (m : node) : list node := repeated_ci [] (local_decls m).

(* one warning per unmentioned local, on the declared name *)
Definition method_spec (m : node) : list diag :=
  flat_map (fun d => if mentions m (nident d) then [] else [warn_of (nident d) (ident_range d)]) (locals m).

Definition unused_spec (file : node) : list diag := flat_map method_spec (all_methods file).

(* one error per repeated declaration, on the repeated name *)
Definition dup_spec (file : node) : list diag := flat_map (fun m => map dup_diag (redeclared m)) (all_methods file).

(* the key function identifies exactly the names that differ in letter case only *)
Definition key_ci (keyf : str -> str) : Prop := forall a b, keyf a = keyf b <-> upper a = upper b.

Lemma key_ci_upper : key_ci upper.
Proof. intros a b. tauto. Qed.
Lemma key_ci_today : key_ci key_today.
Proof. exact key_ci_upper. Qed.

Lemma key_ci_eqb keyf a b : key_ci keyf -> str_eqb (keyf a) (keyf b) = ci_eqb a b.
Proof.
  intro Hk. unfold ci_eqb. destruct (str_eqb (upper a) (upper b)) eqn:E.
  - apply str_eqb_eq in E. apply Hk in E. rewrite E. apply str_eqb_refl.
  - apply str_eqb_neq. intro H. apply Hk in H. rewrite H, str_eqb_refl in E. discriminate.
Qed.

(* ---- the analyser's name list against the specification's enumeration ---- *)

Fixpoint mn_list (n : node) (member first : bool) (l : list node) : list str :=
  match l with
  | [] => []
  | c :: l' => mention_names (child_member n member first) c ++ mn_list n member false l'
  end.

Fixpoint mw_list (n : node) (member first : bool) (l : list node) : list (bool * node) :=
  match l with
  | [] => []
  | c :: l' => mwalk (member_pos n member first) c ++ mw_list n member false l'
  end.

Lemma mention_names_eq mb n :
  mention_names mb n = names_here mb n ++ (if is_term n then [] else mn_list n mb true (nchildren n)).
Proof.
  destruct n as [k i r rg a ch]. cbn [mention_names nchildren]. f_equal. unfold is_term.
  generalize (Node k i r rg a ch). intro q. destruct (is_kind KAstTerminal q); [reflexivity|].
  generalize true. induction ch as [|c ch IH]; intro first; [reflexivity|]. cbn [mn_list]. rewrite <- IH. reflexivity.
Qed.

Lemma mwalk_eq mb n :
  mwalk mb n = (mb, n) :: (if is_term n then [] else mw_list n mb true (nchildren n)).
Proof.
  destruct n as [k i r rg a ch]. cbn [mwalk nchildren]. f_equal.
  generalize (Node k i r rg a ch). intro q. destruct (is_term q); [reflexivity|].
  generalize true. induction ch as [|c ch IH]; intro first; [reflexivity|]. cbn [mw_list]. rewrite <- IH. reflexivity.
Qed.

Definition names_of (e : bool * node) : list str := names_here (fst e) (snd e).

Lemma mention_names_mwalk n : forall mb, mention_names mb n = flat_map names_of (mwalk mb n).
Proof.
  induction n as [k id r rg a ch IH] using node_ind'. intro mb.
  rewrite mention_names_eq, mwalk_eq. cbn [flat_map names_of fst snd]. f_equal.
  destruct (is_term (Node k id r rg a ch)); [reflexivity|]. cbn [nchildren].
  generalize (Node k id r rg a ch). intro q. generalize true.
  induction IH as [|c l Hc _ IHl]; intro first; [reflexivity|]. cbn [mn_list mw_list].
  rewrite flat_map_app, <- member_pos_child, Hc, IHl. reflexivity.
Qed.

(* a name met at a node has the key of x iff the node mentions x *)
Lemma hit_names_here keyf x e :
  key_ci keyf -> existsb (fun nm => str_eqb (keyf nm) (keyf x)) (names_of e) = is_mention x e.
Proof.
  intro Hk. destruct e as [mb t]. unfold names_of, names_here, is_mention, is_term, name_tok. cbn [fst snd].
  assert (Hkind : is_kind KAstTerminal t = true -> is_kind KAstMethodCall t = false /\ is_kind KAstForBlock t = false).
  { unfold is_kind. destruct (nkind t); cbv [ak_eqb ak_idx N.eqb Pos.eqb]; intro; split; congruence. }
  destruct (is_kind KAstTerminal t) eqn:Et.
  - destruct (Hkind eq_refl) as [-> ->]. cbn [andb orb]. rewrite !orb_false_r.
    destruct mb, (is_string_lit t); cbn [negb andb existsb]; try reflexivity.
    rewrite !orb_false_r. apply key_ci_eqb. exact Hk.
  - cbn [andb orb]. rewrite existsb_app.
    f_equal.
    + destruct (is_kind KAstMethodCall t), mb; cbn [negb andb existsb]; try reflexivity.
      rewrite orb_false_r. apply key_ci_eqb. exact Hk.
    + destruct (is_kind KAstForBlock t); cbn [andb]; [|reflexivity].
      destruct (attr_tok K_ident t); cbn [existsb]; [|reflexivity]. rewrite orb_false_r. apply key_ci_eqb. exact Hk.
Qed.

Lemma hit_mwalk keyf x l :
  key_ci keyf -> hit keyf (flat_map names_of l) (keyf x) = existsb (is_mention x) l.
Proof.
  intro Hk. unfold hit. rewrite existsb_flat_map. apply existsb_ext_in. intros e _. apply hit_names_here. exact Hk.
Qed.

Lemma method_body_kind m b : method_body m = Some b -> is_kind KAstMethodBody b = true.
Proof. unfold method_body. intro H. apply find_some in H. tauto. Qed.

(* the body node itself is neither a declaration nor a mention: the analyser reads the statements *)
Lemma body_lvars_decls m : body_lvars m = local_decls m.
Proof.
  unfold body_lvars, local_decls, stmts. destruct (method_body m) as [b|] eqn:E; [|reflexivity].
  destruct (body_kind b (method_body_kind _ _ E)) as (Hl & _).
  rewrite subnodes_eq. cbn [filter]. rewrite Hl. reflexivity.
Qed.

Lemma body_names_mwalk m : body_names m = flat_map names_of (flat_map (mwalk false) (stmts m)).
Proof.
  unfold body_names, stmts. destruct (method_body m) as [b|] eqn:E; [|reflexivity].
  destruct (body_kind b (method_body_kind _ _ E)) as (_ & Ht & Hc & Hf & Hb & Ha).
  rewrite mention_names_mwalk, mwalk_eq. cbn [flat_map]. rewrite Ht.
  unfold names_of at 1. cbn [fst snd]. unfold names_here. unfold is_term in Ht. rewrite Ht, Hc, Hf. cbn [andb app].
  assert (Hm : forall first, member_pos b false first = false).
  { intro first. unfold member_pos, is_dot_op. rewrite Hb, Ha. reflexivity. }
  generalize true. induction (nchildren b) as [|c l IH]; intro first; [reflexivity|].
  cbn [mw_list flat_map]. rewrite !flat_map_app, Hm, IH. reflexivity.
Qed.

Lemma mentions_hit keyf m x : key_ci keyf -> hit keyf (body_names m) (keyf x) = mentions m x.
Proof. intro Hk. rewrite body_names_mwalk. unfold mentions. apply hit_mwalk. exact Hk. Qed.

Lemma mem_key_ci keyf a seen : key_ci keyf -> mem_str (keyf a) (map keyf seen) = existsb (ci_eqb a) seen.
Proof.
  intro Hk. unfold mem_str. rewrite existsb_map. apply existsb_ext_in. intros s _. apply key_ci_eqb. exact Hk.
Qed.

Lemma first_by_distinct keyf l : key_ci keyf -> forall seen, first_by keyf (map keyf seen) l = distinct_ci seen l.
Proof.
  intro Hk. induction l as [|d l IH]; intro seen; [reflexivity|]. cbn [first_by distinct_ci].
  rewrite (mem_key_ci _ _ _ Hk). destruct (existsb _ seen); [apply IH|].
  f_equal. rewrite <- IH, map_app. reflexivity.
Qed.

Lemma later_by_repeated keyf l : key_ci keyf -> forall seen, later_by keyf (map keyf seen) l = repeated_ci seen l.
Proof.
  intro Hk. induction l as [|d l IH]; intro seen; [reflexivity|]. cbn [later_by repeated_ci].
  rewrite (mem_key_ci _ _ _ Hk). destruct (existsb _ seen); [f_equal; apply IH|].
  rewrite <- IH, map_app. reflexivity.
Qed.

(* one method: the analyser's report is the "already declared" errors followed by the specified warnings *)
Theorem method_report_spec keyf m :
  key_ci keyf -> method_report keyf m = map dup_diag (redeclared m) ++ method_spec m.
Proof.
  intro Hk. rewrite method_report_eq. unfold report_of, redeclared, method_spec, locals.
  rewrite body_lvars_decls.
  rewrite (first_by_distinct keyf _ Hk []), (later_by_repeated keyf _ Hk []). f_equal.
  apply flat_map_ext. intro d. rewrite (mentions_hit keyf m _ Hk). reflexivity.
Qed.

Lemma dup_diags_not_unused l : Forall (fun d => is_unused_diag d = false) (map dup_diag l).
Proof. induction l; constructor; [reflexivity|assumption]. Qed.

Lemma method_spec_unused m : Forall (fun d => is_unused_diag d = true) (method_spec m).
Proof.
  unfold method_spec. induction (locals m) as [|d l IH]; [constructor|]. cbn [flat_map].
  apply Forall_app. split; [|exact IH]. destruct (mentions m (nident d)); repeat constructor.
Qed.

Theorem method_exact keyf m :
  key_ci keyf -> filter is_unused_diag (method_report keyf m) = method_spec m.
Proof.
  intro Hk. rewrite (method_report_spec _ _ Hk), filter_app.
  rewrite (filter_all_false _ _ (dup_diags_not_unused _)), (filter_all_true _ _ (method_spec_unused m)). reflexivity.
Qed.

Theorem method_dups_exact keyf m :
  key_ci keyf -> filter (fun d => negb (is_unused_diag d)) (method_report keyf m) = map dup_diag (redeclared m).
Proof.
  intro Hk. rewrite (method_report_spec _ _ Hk), filter_app.
  rewrite (filter_all_true _ (map dup_diag _)), (filter_all_false _ (method_spec m)); [apply app_nil_r| |].
  - eapply Forall_impl; [|apply method_spec_unused]. intros d ->. reflexivity.
  - eapply Forall_impl; [|apply dup_diags_not_unused]. intros d ->. reflexivity.
Qed.

(* THE statement: for every tree, the warnings are exactly the specified ones, in order *)
Theorem unused_exact_eq keyf file : key_ci keyf -> unused_vars keyf file = unused_spec file.
Proof.
  intro Hk. unfold unused_vars, unused_spec. rewrite report_decomposes, filter_flat_map.
  apply flat_map_ext. intro m. apply method_exact. exact Hk.
Qed.

Theorem unused_exact keyf file : key_ci keyf -> Permutation (unused_vars keyf file) (unused_spec file).
Proof. intro Hk. rewrite (unused_exact_eq _ _ Hk). apply Permutation_refl. Qed.

Theorem dups_exact_eq keyf file : key_ci keyf -> dup_errors keyf file = dup_spec file.
Proof.
  intro Hk. unfold dup_errors, dup_spec. rewrite report_decomposes, filter_flat_map.
  apply flat_map_ext. intro m. apply method_dups_exact. exact Hk.
Qed.

(* ---- the declarative reading of `mentions` ---- *)

(* x is mentioned at or below n, n being in member position (mb) or not *)
Inductive MentionsIn (x : str) : bool -> node -> Prop :=
| MI_here mb n : is_mention x (mb, n) = true -> MentionsIn x mb n
| MI_child mb n i c :
    is_term n = false -> nth_error (nchildren n) i = Some c ->
    MentionsIn x (member_pos n mb (Nat.eqb i 0)) c -> MentionsIn x mb n.

Lemma mw_list_in n mb l : forall first e,
  In e (mw_list n mb first l) ->
  exists i c, nth_error l i = Some c /\ In e (mwalk (member_pos n mb (if Nat.eqb i 0 then first else false)) c).
Proof.
  induction l as [|c l IH]; intros first e Hin; [destruct Hin|]. cbn [mw_list] in Hin.
  apply in_app_or in Hin. destruct Hin as [Hin|Hin].
  - exists 0%nat, c. split; [reflexivity|exact Hin].
  - destruct (IH false e Hin) as (i & c' & Hn & Hi). exists (S i), c'. split; [exact Hn|].
    cbn [Nat.eqb]. destruct (Nat.eqb i 0); exact Hi.
Qed.

Lemma mw_list_intro n mb l : forall first i c e,
  nth_error l i = Some c -> In e (mwalk (member_pos n mb (if Nat.eqb i 0 then first else false)) c) ->
  In e (mw_list n mb first l).
Proof.
  induction l as [|c0 l IH]; intros first i c e Hn Hin; [destruct i; discriminate|]. cbn [mw_list].
  apply in_or_app. destruct i as [|i]; cbn [nth_error Nat.eqb] in *.
  - inversion Hn; subst. left. exact Hin.
  - right. apply (IH false i c e Hn). destruct (Nat.eqb i 0); exact Hin.
Qed.

Lemma mentions_in_mwalk x n : forall mb,
  existsb (is_mention x) (mwalk mb n) = true <-> MentionsIn x mb n.
Proof.
  induction n as [k id r rg a ch IH] using node_ind'. intro mb. set (q := Node k id r rg a ch) in *.
  rewrite mwalk_eq. cbn [existsb]. split.
  - intro H. apply orb_true_iff in H. destruct H as [H|H]; [apply MI_here; exact H|].
    destruct (is_term q) eqn:Et; [discriminate|]. apply existsb_exists in H. destruct H as (e & Hin & He).
    apply (mw_list_in q mb _ true) in Hin. destruct Hin as (i & c & Hn & Hi).
    apply (MI_child x mb q i c Et Hn). rewrite Forall_forall in IH.
    apply (IH c (nth_error_In _ _ Hn)). apply existsb_exists. exists e. split; [|exact He].
    destruct (Nat.eqb i 0); exact Hi.
  - intro H. inversion H as [mb' n' Hh|mb' n' i c Et Hn Hc]; subst.
    + rewrite Hh. reflexivity.
    + apply orb_true_iff. right. fold q in Et. rewrite Et. rewrite Forall_forall in IH.
      fold q in Hn. cbn [nchildren q] in Hn.
      apply (IH c (nth_error_In _ _ Hn)) in Hc. apply existsb_exists in Hc. destruct Hc as (e & Hin & He).
      apply existsb_exists. exists e. split; [|exact He].
      apply (mw_list_intro q mb ch true i c e Hn). destruct (Nat.eqb i 0); exact Hin.
Qed.

(* "some statement of the method mentions x other than as the member name to the right of a dot" *)
Theorem mentions_iff m x :
  mentions m x = true <-> exists s, In s (stmts m) /\ MentionsIn x false s.
Proof.
  unfold mentions. rewrite existsb_flat_map, existsb_exists. split.
  - intros (s & Hs & H). exists s. split; [exact Hs|]. apply mentions_in_mwalk. exact H.
  - intros (s & Hs & H). exists s. split; [exact Hs|]. apply mentions_in_mwalk. exact H.
Qed.

(* a local is reported iff no statement of its own method mentions it *)
Theorem reported_iff keyf m d :
  key_ci keyf -> In d (locals m) ->
  (In (warn_of (nident d) (ident_range d)) (method_report keyf m) <->
   ~ exists s, In s (stmts m) /\ MentionsIn (nident d) false s).
Proof.
  intros Hk Hd. rewrite <- mentions_iff. rewrite (method_report_spec _ _ Hk), in_app_iff. split.
  - intros [H|H].
    + apply in_map_iff in H. destruct H as (n & E & _). discriminate E.
    + unfold method_spec in H. apply in_flat_map in H. destruct H as (d' & _ & H).
      destruct (mentions m (nident d')) eqn:E; [destruct H|]. destruct H as [H|[]].
      unfold warn_of in H. injection H as Hr Hn. intro Hm'. rewrite <- Hn, E in Hm'. discriminate.
  - intro H. right. unfold method_spec. apply in_flat_map. exists d. split; [exact Hd|].
    destruct (mentions m (nident d)); [exfalso; apply H; reflexivity|left; reflexivity].
Qed.

(* ------------------------------------------------------------------------------------------ *)
(* Part 4: per-method independence, placement, renaming                                        *)
(* ------------------------------------------------------------------------------------------ *)

(* a method's report is what the analyser says about the method alone *)
Lemma analyze_solo keyf m : is_method m = true -> analyze keyf (solo m) = method_report keyf m ++ flat_map (method_report keyf) (filter is_method (flat_map subnodes (nchildren m))).
Proof.
  intro H. rewrite report_decomposes. unfold all_methods, solo. cbn [nchildren flat_map]. rewrite app_nil_r, subnodes_eq.
  cbn [filter]. rewrite H. reflexivity.
Qed.

Lemma all_methods_children file :
  all_methods file = flat_map (fun c => filter is_method (subnodes c)) (nchildren file).
Proof. unfold all_methods. apply filter_flat_map. Qed.

(* permuting the top-level declarations (the methods among them) permutes the report: no hypothesis *)
Theorem report_per_method keyf file file' :
  Permutation (nchildren file) (nchildren file') -> Permutation (analyze keyf file) (analyze keyf file').
Proof.
  intro Hp. rewrite !report_decomposes, !all_methods_children.
  apply Permutation_flat_map. apply Permutation_flat_map. exact Hp.
Qed.

(* the report depends on the method nodes only: whatever else the two trees contain *)
Theorem report_methods_only keyf file file' :
  all_methods file = all_methods file' -> analyze keyf file = analyze keyf file'.
Proof. intro H. rewrite !report_decomposes, H. reflexivity. Qed.

(* placement: every diagnostic sits on the name token of a local declaration of some method of the
   file; a warning prints that declaration's spelling and is a WARNING, the other class is an ERROR *)
Definition diag_on (d : diag) (n : node) : Prop :=
  is_lvar n = true /\ drange d = ident_range n /\
  (is_unused_diag d = true -> dkey d = nident n /\ dsev d = SEV_WARNING) /\
  (is_unused_diag d = false -> dsev d = SEV_ERROR).

Theorem placement keyf file :
  Forall (fun d => exists m n, In m (all_methods file) /\ In n (local_decls m) /\ diag_on d n) (analyze keyf file).
Proof.
  rewrite report_decomposes. apply Forall_forall. intros d Hd. apply in_flat_map in Hd.
  destruct Hd as (m & Hm & Hd). exists m. rewrite method_report_eq in Hd. unfold report_of in Hd.
  rewrite body_lvars_decls in Hd. apply in_app_or in Hd. destruct Hd as [Hd|Hd].
  - apply in_map_iff in Hd. destruct Hd as (n & <- & Hn). apply later_by_in in Hn. exists n.
    split; [exact Hm|]. split; [exact Hn|]. unfold local_decls in Hn. apply filter_In in Hn.
    repeat split; try (cbn; discriminate); tauto.
  - apply in_flat_map in Hd. destruct Hd as (n & Hn & Hd). apply first_by_in in Hn. exists n.
    split; [exact Hm|]. split; [exact Hn|]. unfold local_decls in Hn. apply filter_In in Hn.
    destruct (hit keyf _ _); [destruct Hd|]. destruct Hd as [<-|[]].
    repeat split; try (cbn; discriminate); tauto.
Qed.

(* ---- renaming: applying an injective map to every name of the tree (identifiers and token values)
        maps the names in the warnings and changes nothing else ---- *)

Definition map_tok (f : str -> str) (t : tok) : tok := mkTok (traw t) (trange t) (tty t) (f (tval t)).
Definition map_aval (f : str -> str) (a : aval) : aval :=
  match a with
  | AT t => AT (map_tok f t)
  | AL l => AL (map (map_tok f) l)
  | _ => a
  end.

Fixpoint map_idents (f : str -> str) (n : node) : node :=
  match n with
  | Node k id r rg a ch => Node k (f id) r rg (map (fun kv => (fst kv, map_aval f (snd kv))) a) (map (map_idents f) ch)
  end.

Definition dmap (f : str -> str) (d : diag) : diag :=
  mkDiag (dsev d) (dclass d) (drange d) (if is_unused_diag d then f (dkey d) else dkey d).

Definition injective (f : str -> str) : Prop := forall a b, f a = f b -> a = b.

Lemma mi_kind f n : nkind (map_idents f n) = nkind n. Proof. destruct n; reflexivity. Qed.
Lemma mi_ident f n : nident (map_idents f n) = f (nident n). Proof. destruct n; reflexivity. Qed.
Lemma mi_range f n : nrange (map_idents f n) = nrange n. Proof. destruct n; reflexivity. Qed.
Lemma mi_children f n : nchildren (map_idents f n) = map (map_idents f) (nchildren n). Proof. destruct n; reflexivity. Qed.

Lemma mi_is_kind f k n : is_kind k (map_idents f n) = is_kind k n.
Proof. unfold is_kind. rewrite mi_kind. reflexivity. Qed.

Lemma mi_attr_tok f k n : attr_tok k (map_idents f n) = option_map (map_tok f) (attr_tok k n).
Proof.
  destruct n as [kd id r rg a ch]. unfold attr_tok. cbn [map_idents nattrs].
  induction a as [|[k' v] a IH]; [reflexivity|]. cbn [map attr fst snd].
  destruct (k =? k'); [|exact IH]. destruct v as [x|x|t|[|t l]]; reflexivity.
Qed.

Lemma mi_ident_range f n : ident_range (map_idents f n) = ident_range n.
Proof. unfold ident_range. rewrite mi_attr_tok, mi_range. destruct (attr_tok K_ident n); reflexivity. Qed.

Lemma mi_is_string_lit f n : is_string_lit (map_idents f n) = is_string_lit n.
Proof. unfold is_string_lit. rewrite mi_attr_tok. destruct (attr_tok K_token n); reflexivity. Qed.

Lemma mi_op_is_dot f n : op_is_dot (map_idents f n) = op_is_dot n.
Proof. unfold op_is_dot. rewrite mi_attr_tok. destruct (attr_tok K_op n); reflexivity. Qed.

Lemma mi_child_member f n mb first : child_member (map_idents f n) mb first = child_member n mb first.
Proof. unfold child_member, is_dot_op. rewrite !mi_is_kind, mi_op_is_dot. reflexivity. Qed.

Lemma mi_subnodes f n : subnodes (map_idents f n) = map (map_idents f) (subnodes n).
Proof.
  induction n as [k id r rg a ch IH] using node_ind'. rewrite (subnodes_eq (Node k id r rg a ch)), subnodes_eq.
  cbn [map]. f_equal. rewrite mi_children. cbn [nchildren].
  induction IH as [|c l Hc _ IHl]; [reflexivity|]. cbn [map flat_map]. rewrite map_app, Hc, IHl. reflexivity.
Qed.

Lemma mi_names_here f mb n : names_here mb (map_idents f n) = map f (names_here mb n).
Proof.
  unfold names_here. rewrite !mi_is_kind, mi_is_string_lit, mi_ident, mi_attr_tok.
  destruct (is_kind KAstTerminal n); [destruct (negb mb && negb (is_string_lit n)); reflexivity|].
  rewrite map_app. f_equal.
  - destruct (is_kind KAstMethodCall n && negb mb); reflexivity.
  - destruct (is_kind KAstForBlock n); [|reflexivity]. destruct (attr_tok K_ident n); reflexivity.
Qed.

Lemma mi_mention_names f n : forall mb, mention_names mb (map_idents f n) = map f (mention_names mb n).
Proof.
  induction n as [k id r rg a ch IH] using node_ind'. intro mb. set (q := Node k id r rg a ch) in *.
  rewrite (mention_names_eq mb q), mention_names_eq, map_app, mi_names_here. f_equal.
  unfold is_term. rewrite mi_is_kind. destruct (is_kind KAstTerminal q); [reflexivity|].
  rewrite mi_children. cbn [nchildren q]. clearbody q. generalize true.
  induction IH as [|c l Hc _ IHl]; intro first; [reflexivity|]. cbn [map mn_list].
  rewrite map_app, mi_child_member, Hc, IHl. reflexivity.
Qed.

Lemma mi_method_body f m : method_body (map_idents f m) = option_map (map_idents f) (method_body m).
Proof.
  unfold method_body. rewrite mi_children. induction (nchildren m) as [|c l IH]; [reflexivity|].
  cbn [map find]. rewrite mi_is_kind. destruct (is_kind KAstMethodBody c); [reflexivity|exact IH].
Qed.

Lemma filter_map_comm {A B} (p : B -> bool) (q : A -> bool) (h : A -> B) l :
  (forall a, p (h a) = q a) -> filter p (map h l) = map h (filter q l).
Proof.
  intro H. induction l as [|a l IH]; [reflexivity|]. cbn [map filter]. rewrite H, IH. destruct (q a); reflexivity.
Qed.

Lemma mi_body_lvars f m : body_lvars (map_idents f m) = map (map_idents f) (body_lvars m).
Proof.
  unfold body_lvars. rewrite mi_method_body. destruct (method_body m) as [b|]; [|reflexivity]. cbn [option_map].
  rewrite mi_subnodes. apply filter_map_comm. intro a. apply mi_is_kind.
Qed.

Lemma mi_body_names f m : body_names (map_idents f m) = map f (body_names m).
Proof.
  unfold body_names. rewrite mi_method_body. destruct (method_body m) as [b|]; [|reflexivity]. apply mi_mention_names.
Qed.

Lemma str_eqb_inj f a b : injective f -> str_eqb (f a) (f b) = str_eqb a b.
Proof.
  intro Hf. destruct (str_eqb a b) eqn:E.
  - apply str_eqb_eq in E. subst. apply str_eqb_refl.
  - apply str_eqb_neq. intro H. apply Hf in H. apply str_eqb_neq in E. contradiction.
Qed.

Section Rename.
  (* f renames the names, g is what f does to their keys *)
  Context (keyf f g : str -> str).
  Context (Hg : injective g) (Hfg : forall s, keyf (f s) = g (keyf s)).

  Lemma mem_ren a seen : mem_str (keyf (f a)) (map g seen) = mem_str (keyf a) seen.
  Proof.
    unfold mem_str. rewrite existsb_map, Hfg. apply existsb_ext_in. intros s _. apply str_eqb_inj. exact Hg.
  Qed.

  Lemma first_by_ren l : forall seen,
    first_by keyf (map g seen) (map (map_idents f) l) = map (map_idents f) (first_by keyf seen l).
  Proof.
    induction l as [|n l IH]; intro seen; [reflexivity|]. cbn [map first_by]. rewrite mi_ident, mem_ren.
    destruct (mem_str _ seen); [apply IH|]. cbn [map]. f_equal. rewrite Hfg, <- IH, map_app. reflexivity.
  Qed.

  Lemma later_by_ren l : forall seen,
    later_by keyf (map g seen) (map (map_idents f) l) = map (map_idents f) (later_by keyf seen l).
  Proof.
    induction l as [|n l IH]; intro seen; [reflexivity|]. cbn [map later_by]. rewrite mi_ident, mem_ren.
    destruct (mem_str _ seen); [cbn [map]; f_equal; apply IH|]. rewrite Hfg, <- IH, map_app. reflexivity.
  Qed.

  Lemma hit_ren names x : hit keyf (map f names) (keyf (f x)) = hit keyf names (keyf x).
  Proof.
    unfold hit. rewrite existsb_map. apply existsb_ext_in. intros s _. rewrite !Hfg. apply str_eqb_inj. exact Hg.
  Qed.

  Lemma method_report_rename m :
    method_report keyf (map_idents f m) = map (dmap f) (method_report keyf m).
  Proof.
    rewrite !method_report_eq. unfold report_of. rewrite mi_body_lvars, mi_body_names.
    change (@nil str) with (map g []) at 1 2. rewrite first_by_ren, later_by_ren. rewrite map_app. f_equal.
    - rewrite !map_map. apply map_ext. intro n. unfold dup_diag, dmap. cbn. rewrite mi_ident_range. reflexivity.
    - rewrite flat_map_map. induction (first_by keyf [] (body_lvars m)) as [|n l IH]; [reflexivity|].
      cbn [flat_map]. rewrite map_app, IH. f_equal. rewrite mi_ident, hit_ren, mi_ident_range.
      destruct (hit keyf _ _); reflexivity.
  Qed.

  Lemma all_methods_rename file : all_methods (map_idents f file) = map (map_idents f) (all_methods file).
  Proof.
    unfold all_methods. rewrite mi_children, flat_map_map.
    replace (flat_map (fun a => subnodes (map_idents f a)) (nchildren file))
      with (map (map_idents f) (flat_map subnodes (nchildren file))).
    - apply filter_map_comm. intro a. unfold is_method. rewrite !mi_is_kind. reflexivity.
    - induction (nchildren file) as [|c l IH]; [reflexivity|]. cbn [flat_map]. rewrite map_app, IH, mi_subnodes. reflexivity.
  Qed.

  Theorem rename_equivariant file :
    analyze keyf (map_idents f file) = map (dmap f) (analyze keyf file).
  Proof.
    rewrite !report_decomposes, all_methods_rename, flat_map_map.
    induction (all_methods file) as [|m l IH]; [reflexivity|]. cbn [flat_map].
    rewrite map_app, IH, method_report_rename. reflexivity.
  Qed.
End Rename.

(* an instance for case-insensitive keys: every name gets the prefix c *)
Definition prefix_name (c : N) (s : str) : str := c :: s.

Lemma prefix_injective c : injective (prefix_name c).
Proof. intros a b H. inversion H. reflexivity. Qed.

Theorem rename_prefix_upper c file :
  analyze upper (map_idents (prefix_name c) file) = map (dmap (prefix_name c)) (analyze upper file).
Proof.
  apply (rename_equivariant upper (prefix_name c) (prefix_name (upc c))); [apply prefix_injective|reflexivity].
Qed.

(* ------------------------------------------------------------------------------------------ *)
(* Part 5: the shape of parsed trees: method nodes are children of the root                    *)
(* ------------------------------------------------------------------------------------------ *)

Definition methods (file : node) : list node := filter is_method (nchildren file).

(* no method node strictly below a child of the root *)
Definition top_flat (file : node) : Prop :=
  Forall (fun c => Forall (fun n => is_method n = false) (flat_map subnodes (nchildren c))) (nchildren file).

Definition top_flat_b (file : node) : bool :=
  forallb (fun c => forallb (fun n => negb (is_method n)) (flat_map subnodes (nchildren c))) (nchildren file).

Lemma top_flat_b_sound file : top_flat_b file = true -> top_flat file.
Proof.
  unfold top_flat_b, top_flat. intro H. apply Forall_forall. intros c Hc. apply Forall_forall. intros n Hn.
  rewrite forallb_forall in H. specialize (H c Hc). rewrite forallb_forall in H. specialize (H n Hn).
  destruct (is_method n); [discriminate|reflexivity].
Qed.

Theorem all_methods_top file : top_flat file -> all_methods file = methods file.
Proof.
  unfold top_flat, methods. rewrite all_methods_children. induction 1 as [|c l Hc _ IH]; [reflexivity|].
  cbn [flat_map filter]. rewrite IH, subnodes_eq. cbn [filter].
  rewrite (filter_all_false _ _ Hc). destruct (is_method c); reflexivity.
Qed.

(* on such a tree a method's own report is the whole report of the method alone *)
Theorem analyze_solo_flat keyf m :
  is_method m = true -> Forall (fun n => is_method n = false) (flat_map subnodes (nchildren m)) ->
  analyze keyf (solo m) = method_report keyf m.
Proof.
  intros H Hf. rewrite (analyze_solo _ _ H), (filter_all_false _ _ Hf). apply app_nil_r.
Qed.
