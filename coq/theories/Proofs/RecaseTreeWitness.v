(* C17 at tree level: re-cased variants of the REAL-parser witnesses of Proofs/WsTreeWitness.v, DefTreeWitness.v,
   ReportWitness.v and HierTreeWitness.v (tools/dump2coq.py: text -> real lexer + parser -> treedump -> Gallina):
   every keyword and every REFERENCE is written in another letter case, every declared name is left as written. *)
From GoldV Require Import Base Tokens Lexer AstKinds Tree.

(* real parser, text: 'CLASS aChild (APARENT)\nUSES alib\nfc : INT4\nPROC Run(p : Int4)\n VAR l : int4\n L = P + FC + Fp + CLIB\n SELF.FP = L\n Self.BASE\nENDPROC\nproc Base\nEndProc\n' *)
Definition rc_child : node :=
  Node KAstRoot [] 0 (mkRange (mkPos 0 0) (mkPos 0 0)) [] [
    Node KAstClass [97;67;104;105;108;100] 0 (mkRange (mkPos 0 0) (mkPos 0 22)) [(1, AT (mkTok 6 (mkRange (mkPos 0 6) (mkPos 0 12)) TIdentifier [97;67;104;105;108;100])); (2, AL [(mkTok 14 (mkRange (mkPos 0 14) (mkPos 0 21)) TIdentifier [65;80;65;82;69;78;84])])] [];
    Node KAstUses [117;115;101;115] 23 (mkRange (mkPos 1 0) (mkPos 1 9)) [(3, AL [(mkTok 28 (mkRange (mkPos 1 5) (mkPos 1 9)) TIdentifier [97;108;105;98])])] [];
    Node KAstGlobalVariableDeclaration [102;99] 33 (mkRange (mkPos 2 0) (mkPos 2 9)) [(1, AT (mkTok 33 (mkRange (mkPos 2 0) (mkPos 2 2)) TIdentifier [102;99])); (6, AN 0)] [
      Node KAstTypeBasic [73;78;84;52] 38 (mkRange (mkPos 2 5) (mkPos 2 9)) [(0, AT (mkTok 38 (mkRange (mkPos 2 5) (mkPos 2 9)) TIdentifier [73;78;84;52]))] []];
    Node KAstProcedure [82;117;110] 43 (mkRange (mkPos 3 0) (mkPos 8 7)) [(5, AL [(mkTok 124 (mkRange (mkPos 8 0) (mkPos 8 7)) TEndProc [69;78;68;80;82;79;67])]); (6, AN 0)] [
      Node KAstTerminal [82;117;110] 48 (mkRange (mkPos 3 5) (mkPos 3 8)) [(0, AT (mkTok 48 (mkRange (mkPos 3 5) (mkPos 3 8)) TIdentifier [82;117;110]))] [];
      Node KAstParameterDeclarationList [112;97;114;97;109;95;100;101;99;108;115] 51 (mkRange (mkPos 3 8) (mkPos 3 18)) [] [
        Node KAstParameterDeclaration [112] 52 (mkRange (mkPos 3 9) (mkPos 3 17)) [(1, AT (mkTok 52 (mkRange (mkPos 3 9) (mkPos 3 10)) TIdentifier [112])); (7, AL [])] [
          Node KAstTypeBasic [73;110;116;52] 56 (mkRange (mkPos 3 13) (mkPos 3 17)) [(0, AT (mkTok 56 (mkRange (mkPos 3 13) (mkPos 3 17)) TIdentifier [73;110;116;52]))] []]];
      Node KAstMethodBody [109;101;116;104;111;100;95;98;111;100;121] 63 (mkRange (mkPos 4 1) (mkPos 7 10)) [] [
        Node KAstLocalVariableDeclaration [108] 63 (mkRange (mkPos 4 1) (mkPos 4 13)) [(1, AT (mkTok 67 (mkRange (mkPos 4 5) (mkPos 4 6)) TIdentifier [108]))] [
          Node KAstTypeBasic [105;110;116;52] 71 (mkRange (mkPos 4 9) (mkPos 4 13)) [(0, AT (mkTok 71 (mkRange (mkPos 4 9) (mkPos 4 13)) TIdentifier [105;110;116;52]))] []];
        Node KAstBinaryOp [61] 77 (mkRange (mkPos 5 1) (mkPos 5 23)) [(4, AT (mkTok 79 (mkRange (mkPos 5 3) (mkPos 5 4)) TEquals [61]))] [
          Node KAstTerminal [76] 77 (mkRange (mkPos 5 1) (mkPos 5 2)) [(0, AT (mkTok 77 (mkRange (mkPos 5 1) (mkPos 5 2)) TIdentifier [76]))] [];
          Node KAstBinaryOp [43] 81 (mkRange (mkPos 5 5) (mkPos 5 23)) [(4, AT (mkTok 93 (mkRange (mkPos 5 17) (mkPos 5 18)) TPlus [43]))] [
            Node KAstBinaryOp [43] 81 (mkRange (mkPos 5 5) (mkPos 5 16)) [(4, AT (mkTok 88 (mkRange (mkPos 5 12) (mkPos 5 13)) TPlus [43]))] [
              Node KAstBinaryOp [43] 81 (mkRange (mkPos 5 5) (mkPos 5 11)) [(4, AT (mkTok 83 (mkRange (mkPos 5 7) (mkPos 5 8)) TPlus [43]))] [
                Node KAstTerminal [80] 81 (mkRange (mkPos 5 5) (mkPos 5 6)) [(0, AT (mkTok 81 (mkRange (mkPos 5 5) (mkPos 5 6)) TIdentifier [80]))] [];
                Node KAstTerminal [70;67] 85 (mkRange (mkPos 5 9) (mkPos 5 11)) [(0, AT (mkTok 85 (mkRange (mkPos 5 9) (mkPos 5 11)) TIdentifier [70;67]))] []];
              Node KAstTerminal [70;112] 90 (mkRange (mkPos 5 14) (mkPos 5 16)) [(0, AT (mkTok 90 (mkRange (mkPos 5 14) (mkPos 5 16)) TIdentifier [70;112]))] []];
            Node KAstTerminal [67;76;73;66] 95 (mkRange (mkPos 5 19) (mkPos 5 23)) [(0, AT (mkTok 95 (mkRange (mkPos 5 19) (mkPos 5 23)) TIdentifier [67;76;73;66]))] []]];
        Node KAstBinaryOp [61] 101 (mkRange (mkPos 6 1) (mkPos 6 12)) [(4, AT (mkTok 109 (mkRange (mkPos 6 9) (mkPos 6 10)) TEquals [61]))] [
          Node KAstBinaryOp [46] 101 (mkRange (mkPos 6 1) (mkPos 6 8)) [(4, AT (mkTok 105 (mkRange (mkPos 6 5) (mkPos 6 6)) TDot [46]))] [
            Node KAstTerminal [83;69;76;70] 101 (mkRange (mkPos 6 1) (mkPos 6 5)) [(0, AT (mkTok 101 (mkRange (mkPos 6 1) (mkPos 6 5)) TIdentifier [83;69;76;70]))] [];
            Node KAstTerminal [70;80] 106 (mkRange (mkPos 6 6) (mkPos 6 8)) [(0, AT (mkTok 106 (mkRange (mkPos 6 6) (mkPos 6 8)) TIdentifier [70;80]))] []];
          Node KAstTerminal [76] 111 (mkRange (mkPos 6 11) (mkPos 6 12)) [(0, AT (mkTok 111 (mkRange (mkPos 6 11) (mkPos 6 12)) TIdentifier [76]))] []];
        Node KAstBinaryOp [46] 114 (mkRange (mkPos 7 1) (mkPos 7 10)) [(4, AT (mkTok 118 (mkRange (mkPos 7 5) (mkPos 7 6)) TDot [46]))] [
          Node KAstTerminal [83;101;108;102] 114 (mkRange (mkPos 7 1) (mkPos 7 5)) [(0, AT (mkTok 114 (mkRange (mkPos 7 1) (mkPos 7 5)) TIdentifier [83;101;108;102]))] [];
          Node KAstTerminal [66;65;83;69] 119 (mkRange (mkPos 7 6) (mkPos 7 10)) [(0, AT (mkTok 119 (mkRange (mkPos 7 6) (mkPos 7 10)) TIdentifier [66;65;83;69]))] []]]];
    Node KAstProcedure [66;97;115;101] 132 (mkRange (mkPos 9 0) (mkPos 10 7)) [(5, AL [(mkTok 142 (mkRange (mkPos 10 0) (mkPos 10 7)) TEndProc [69;110;100;80;114;111;99])]); (6, AN 0)] [
      Node KAstTerminal [66;97;115;101] 137 (mkRange (mkPos 9 5) (mkPos 9 9)) [(0, AT (mkTok 137 (mkRange (mkPos 9 5) (mkPos 9 9)) TIdentifier [66;97;115;101]))] [];
      Node KAstMethodBody [109;101;116;104;111;100;95;98;111;100;121] 137 (mkRange (mkPos 9 5) (mkPos 9 9)) [] []]].


(* real parser, text: 'Class aParent\nCONST cP = 2\nfp : Int4\nPROC Base\n FP = 1\nEndProc\n' *)
Definition rc_parent : node :=
  Node KAstRoot [] 0 (mkRange (mkPos 0 0) (mkPos 0 0)) [] [
    Node KAstClass [97;80;97;114;101;110;116] 0 (mkRange (mkPos 0 0) (mkPos 0 13)) [(1, AT (mkTok 6 (mkRange (mkPos 0 6) (mkPos 0 13)) TIdentifier [97;80;97;114;101;110;116])); (2, AL [])] [];
    Node KAstConstantDeclaration [99;80] 14 (mkRange (mkPos 1 0) (mkPos 1 12)) [(1, AT (mkTok 20 (mkRange (mkPos 1 6) (mkPos 1 8)) TIdentifier [99;80])); (6, AN 0); (7, AL [(mkTok 25 (mkRange (mkPos 1 11) (mkPos 1 12)) TNumericLiteral [50])])] [];
    Node KAstGlobalVariableDeclaration [102;112] 27 (mkRange (mkPos 2 0) (mkPos 2 9)) [(1, AT (mkTok 27 (mkRange (mkPos 2 0) (mkPos 2 2)) TIdentifier [102;112])); (6, AN 0)] [
      Node KAstTypeBasic [73;110;116;52] 32 (mkRange (mkPos 2 5) (mkPos 2 9)) [(0, AT (mkTok 32 (mkRange (mkPos 2 5) (mkPos 2 9)) TIdentifier [73;110;116;52]))] []];
    Node KAstProcedure [66;97;115;101] 37 (mkRange (mkPos 3 0) (mkPos 5 7)) [(5, AL [(mkTok 55 (mkRange (mkPos 5 0) (mkPos 5 7)) TEndProc [69;110;100;80;114;111;99])]); (6, AN 0)] [
      Node KAstTerminal [66;97;115;101] 42 (mkRange (mkPos 3 5) (mkPos 3 9)) [(0, AT (mkTok 42 (mkRange (mkPos 3 5) (mkPos 3 9)) TIdentifier [66;97;115;101]))] [];
      Node KAstMethodBody [109;101;116;104;111;100;95;98;111;100;121] 48 (mkRange (mkPos 4 1) (mkPos 4 7)) [] [
        Node KAstBinaryOp [61] 48 (mkRange (mkPos 4 1) (mkPos 4 7)) [(4, AT (mkTok 51 (mkRange (mkPos 4 4) (mkPos 4 5)) TEquals [61]))] [
          Node KAstTerminal [70;80] 48 (mkRange (mkPos 4 1) (mkPos 4 3)) [(0, AT (mkTok 48 (mkRange (mkPos 4 1) (mkPos 4 3)) TIdentifier [70;80]))] [];
          Node KAstTerminal [49] 53 (mkRange (mkPos 4 6) (mkPos 4 7)) [(0, AT (mkTok 53 (mkRange (mkPos 4 6) (mkPos 4 7)) TNumericLiteral [49]))] []]]]].


(* real parser, text: 'MODULE aLib\nConst cLib = 1\n' *)
Definition rc_lib : node :=
  Node KAstRoot [] 0 (mkRange (mkPos 0 0) (mkPos 0 0)) [] [
    Node KAstModule [97;76;105;98] 0 (mkRange (mkPos 0 0) (mkPos 0 11)) [(1, AT (mkTok 7 (mkRange (mkPos 0 7) (mkPos 0 11)) TIdentifier [97;76;105;98]))] [];
    Node KAstConstantDeclaration [99;76;105;98] 12 (mkRange (mkPos 1 0) (mkPos 1 14)) [(1, AT (mkTok 18 (mkRange (mkPos 1 6) (mkPos 1 10)) TIdentifier [99;76;105;98])); (6, AN 0); (7, AL [(mkTok 25 (mkRange (mkPos 1 13) (mkPos 1 14)) TNumericLiteral [49])])] []].


(* real parser, text: 'CLASS aUser\nPROC Go(q : ACHILD)\n Q.FC = 1\n ALIB.clib\nENDPROC\n' *)
Definition rc_user : node :=
  Node KAstRoot [] 0 (mkRange (mkPos 0 0) (mkPos 0 0)) [] [
    Node KAstClass [97;85;115;101;114] 0 (mkRange (mkPos 0 0) (mkPos 0 11)) [(1, AT (mkTok 6 (mkRange (mkPos 0 6) (mkPos 0 11)) TIdentifier [97;85;115;101;114])); (2, AL [])] [];
    Node KAstProcedure [71;111] 12 (mkRange (mkPos 1 0) (mkPos 4 7)) [(5, AL [(mkTok 53 (mkRange (mkPos 4 0) (mkPos 4 7)) TEndProc [69;78;68;80;82;79;67])]); (6, AN 0)] [
      Node KAstTerminal [71;111] 17 (mkRange (mkPos 1 5) (mkPos 1 7)) [(0, AT (mkTok 17 (mkRange (mkPos 1 5) (mkPos 1 7)) TIdentifier [71;111]))] [];
      Node KAstParameterDeclarationList [112;97;114;97;109;95;100;101;99;108;115] 19 (mkRange (mkPos 1 7) (mkPos 1 19)) [] [
        Node KAstParameterDeclaration [113] 20 (mkRange (mkPos 1 8) (mkPos 1 18)) [(1, AT (mkTok 20 (mkRange (mkPos 1 8) (mkPos 1 9)) TIdentifier [113])); (7, AL [])] [
          Node KAstTypeBasic [65;67;72;73;76;68] 24 (mkRange (mkPos 1 12) (mkPos 1 18)) [(0, AT (mkTok 24 (mkRange (mkPos 1 12) (mkPos 1 18)) TIdentifier [65;67;72;73;76;68]))] []]];
      Node KAstMethodBody [109;101;116;104;111;100;95;98;111;100;121] 33 (mkRange (mkPos 2 1) (mkPos 3 10)) [] [
        Node KAstBinaryOp [61] 33 (mkRange (mkPos 2 1) (mkPos 2 9)) [(4, AT (mkTok 38 (mkRange (mkPos 2 6) (mkPos 2 7)) TEquals [61]))] [
          Node KAstBinaryOp [46] 33 (mkRange (mkPos 2 1) (mkPos 2 5)) [(4, AT (mkTok 34 (mkRange (mkPos 2 2) (mkPos 2 3)) TDot [46]))] [
            Node KAstTerminal [81] 33 (mkRange (mkPos 2 1) (mkPos 2 2)) [(0, AT (mkTok 33 (mkRange (mkPos 2 1) (mkPos 2 2)) TIdentifier [81]))] [];
            Node KAstTerminal [70;67] 35 (mkRange (mkPos 2 3) (mkPos 2 5)) [(0, AT (mkTok 35 (mkRange (mkPos 2 3) (mkPos 2 5)) TIdentifier [70;67]))] []];
          Node KAstTerminal [49] 40 (mkRange (mkPos 2 8) (mkPos 2 9)) [(0, AT (mkTok 40 (mkRange (mkPos 2 8) (mkPos 2 9)) TNumericLiteral [49]))] []];
        Node KAstBinaryOp [46] 43 (mkRange (mkPos 3 1) (mkPos 3 10)) [(4, AT (mkTok 47 (mkRange (mkPos 3 5) (mkPos 3 6)) TDot [46]))] [
          Node KAstTerminal [65;76;73;66] 43 (mkRange (mkPos 3 1) (mkPos 3 5)) [(0, AT (mkTok 43 (mkRange (mkPos 3 1) (mkPos 3 5)) TIdentifier [65;76;73;66]))] [];
          Node KAstTerminal [99;108;105;98] 48 (mkRange (mkPos 3 6) (mkPos 3 10)) [(0, AT (mkTok 48 (mkRange (mkPos 3 6) (mkPos 3 10)) TIdentifier [99;108;105;98]))] []]]]].


(* real parser, text: 'CLASS aFoo\nCONST cA = 1\nfa : INT4\nPROC Run(p : Int4, Fa : INT4)\n VAR l : int4\n L = P + FA + ca\n SELF.FA = L\n ZZ = 1\nENDPROC\n' *)
Definition rc_deftree : node :=
  Node KAstRoot [] 0 (mkRange (mkPos 0 0) (mkPos 0 0)) [] [
    Node KAstClass [97;70;111;111] 0 (mkRange (mkPos 0 0) (mkPos 0 10)) [(1, AT (mkTok 6 (mkRange (mkPos 0 6) (mkPos 0 10)) TIdentifier [97;70;111;111])); (2, AL [])] [];
    Node KAstConstantDeclaration [99;65] 11 (mkRange (mkPos 1 0) (mkPos 1 12)) [(1, AT (mkTok 17 (mkRange (mkPos 1 6) (mkPos 1 8)) TIdentifier [99;65])); (6, AN 0); (7, AL [(mkTok 22 (mkRange (mkPos 1 11) (mkPos 1 12)) TNumericLiteral [49])])] [];
    Node KAstGlobalVariableDeclaration [102;97] 24 (mkRange (mkPos 2 0) (mkPos 2 9)) [(1, AT (mkTok 24 (mkRange (mkPos 2 0) (mkPos 2 2)) TIdentifier [102;97])); (6, AN 0)] [
      Node KAstTypeBasic [73;78;84;52] 29 (mkRange (mkPos 2 5) (mkPos 2 9)) [(0, AT (mkTok 29 (mkRange (mkPos 2 5) (mkPos 2 9)) TIdentifier [73;78;84;52]))] []];
    Node KAstProcedure [82;117;110] 34 (mkRange (mkPos 3 0) (mkPos 8 7)) [(5, AL [(mkTok 116 (mkRange (mkPos 8 0) (mkPos 8 7)) TEndProc [69;78;68;80;82;79;67])]); (6, AN 0)] [
      Node KAstTerminal [82;117;110] 39 (mkRange (mkPos 3 5) (mkPos 3 8)) [(0, AT (mkTok 39 (mkRange (mkPos 3 5) (mkPos 3 8)) TIdentifier [82;117;110]))] [];
      Node KAstParameterDeclarationList [112;97;114;97;109;95;100;101;99;108;115] 42 (mkRange (mkPos 3 8) (mkPos 3 29)) [] [
        Node KAstParameterDeclaration [112] 43 (mkRange (mkPos 3 9) (mkPos 3 17)) [(1, AT (mkTok 43 (mkRange (mkPos 3 9) (mkPos 3 10)) TIdentifier [112])); (7, AL [])] [
          Node KAstTypeBasic [73;110;116;52] 47 (mkRange (mkPos 3 13) (mkPos 3 17)) [(0, AT (mkTok 47 (mkRange (mkPos 3 13) (mkPos 3 17)) TIdentifier [73;110;116;52]))] []];
        Node KAstParameterDeclaration [70;97] 53 (mkRange (mkPos 3 19) (mkPos 3 28)) [(1, AT (mkTok 53 (mkRange (mkPos 3 19) (mkPos 3 21)) TIdentifier [70;97])); (7, AL [])] [
          Node KAstTypeBasic [73;78;84;52] 58 (mkRange (mkPos 3 24) (mkPos 3 28)) [(0, AT (mkTok 58 (mkRange (mkPos 3 24) (mkPos 3 28)) TIdentifier [73;78;84;52]))] []]];
      Node KAstMethodBody [109;101;116;104;111;100;95;98;111;100;121] 65 (mkRange (mkPos 4 1) (mkPos 7 7)) [] [
        Node KAstLocalVariableDeclaration [108] 65 (mkRange (mkPos 4 1) (mkPos 4 13)) [(1, AT (mkTok 69 (mkRange (mkPos 4 5) (mkPos 4 6)) TIdentifier [108]))] [
          Node KAstTypeBasic [105;110;116;52] 73 (mkRange (mkPos 4 9) (mkPos 4 13)) [(0, AT (mkTok 73 (mkRange (mkPos 4 9) (mkPos 4 13)) TIdentifier [105;110;116;52]))] []];
        Node KAstBinaryOp [61] 79 (mkRange (mkPos 5 1) (mkPos 5 16)) [(4, AT (mkTok 81 (mkRange (mkPos 5 3) (mkPos 5 4)) TEquals [61]))] [
          Node KAstTerminal [76] 79 (mkRange (mkPos 5 1) (mkPos 5 2)) [(0, AT (mkTok 79 (mkRange (mkPos 5 1) (mkPos 5 2)) TIdentifier [76]))] [];
          Node KAstBinaryOp [43] 83 (mkRange (mkPos 5 5) (mkPos 5 16)) [(4, AT (mkTok 90 (mkRange (mkPos 5 12) (mkPos 5 13)) TPlus [43]))] [
            Node KAstBinaryOp [43] 83 (mkRange (mkPos 5 5) (mkPos 5 11)) [(4, AT (mkTok 85 (mkRange (mkPos 5 7) (mkPos 5 8)) TPlus [43]))] [
              Node KAstTerminal [80] 83 (mkRange (mkPos 5 5) (mkPos 5 6)) [(0, AT (mkTok 83 (mkRange (mkPos 5 5) (mkPos 5 6)) TIdentifier [80]))] [];
              Node KAstTerminal [70;65] 87 (mkRange (mkPos 5 9) (mkPos 5 11)) [(0, AT (mkTok 87 (mkRange (mkPos 5 9) (mkPos 5 11)) TIdentifier [70;65]))] []];
            Node KAstTerminal [99;97] 92 (mkRange (mkPos 5 14) (mkPos 5 16)) [(0, AT (mkTok 92 (mkRange (mkPos 5 14) (mkPos 5 16)) TIdentifier [99;97]))] []]];
        Node KAstBinaryOp [61] 96 (mkRange (mkPos 6 1) (mkPos 6 12)) [(4, AT (mkTok 104 (mkRange (mkPos 6 9) (mkPos 6 10)) TEquals [61]))] [
          Node KAstBinaryOp [46] 96 (mkRange (mkPos 6 1) (mkPos 6 8)) [(4, AT (mkTok 100 (mkRange (mkPos 6 5) (mkPos 6 6)) TDot [46]))] [
            Node KAstTerminal [83;69;76;70] 96 (mkRange (mkPos 6 1) (mkPos 6 5)) [(0, AT (mkTok 96 (mkRange (mkPos 6 1) (mkPos 6 5)) TIdentifier [83;69;76;70]))] [];
            Node KAstTerminal [70;65] 101 (mkRange (mkPos 6 6) (mkPos 6 8)) [(0, AT (mkTok 101 (mkRange (mkPos 6 6) (mkPos 6 8)) TIdentifier [70;65]))] []];
          Node KAstTerminal [76] 106 (mkRange (mkPos 6 11) (mkPos 6 12)) [(0, AT (mkTok 106 (mkRange (mkPos 6 11) (mkPos 6 12)) TIdentifier [76]))] []];
        Node KAstBinaryOp [61] 109 (mkRange (mkPos 7 1) (mkPos 7 7)) [(4, AT (mkTok 112 (mkRange (mkPos 7 4) (mkPos 7 5)) TEquals [61]))] [
          Node KAstTerminal [90;90] 109 (mkRange (mkPos 7 1) (mkPos 7 3)) [(0, AT (mkTok 109 (mkRange (mkPos 7 1) (mkPos 7 3)) TIdentifier [90;90]))] [];
          Node KAstTerminal [49] 114 (mkRange (mkPos 7 6) (mkPos 7 7)) [(0, AT (mkTok 114 (mkRange (mkPos 7 6) (mkPos 7 7)) TNumericLiteral [49]))] []]]]].


(* real parser, text: 'CLASS aCase(AROOT)\nCONST Bad = 1\nTYPE Bad2 : INT4\nfld : Int4\nFUNC init(bad : INT4) RETURN TEXT\n  VAR Vx : TVARBYTEARRAY\n  var y : INT4\n  VAR y : int4\n  var z : Int4\nENDFUNC\nPROC Work\n  var k : INT4\n  VAR v : tvarbytearray\n  PURGE(V)\nendproc\nPROC P(\n' *)
Definition rc_resp : node :=
  Node KAstRoot [] 0 (mkRange (mkPos 0 0) (mkPos 0 0)) [] [
    Node KAstClass [97;67;97;115;101] 0 (mkRange (mkPos 0 0) (mkPos 0 18)) [(1, AT (mkTok 6 (mkRange (mkPos 0 6) (mkPos 0 11)) TIdentifier [97;67;97;115;101])); (2, AL [(mkTok 12 (mkRange (mkPos 0 12) (mkPos 0 17)) TIdentifier [65;82;79;79;84])])] [];
    Node KAstConstantDeclaration [66;97;100] 19 (mkRange (mkPos 1 0) (mkPos 1 13)) [(1, AT (mkTok 25 (mkRange (mkPos 1 6) (mkPos 1 9)) TIdentifier [66;97;100])); (6, AN 0); (7, AL [(mkTok 31 (mkRange (mkPos 1 12) (mkPos 1 13)) TNumericLiteral [49])])] [];
    Node KAstTypeDeclaration [66;97;100;50] 33 (mkRange (mkPos 2 0) (mkPos 2 16)) [(1, AT (mkTok 38 (mkRange (mkPos 2 5) (mkPos 2 9)) TIdentifier [66;97;100;50]))] [
      Node KAstTypeBasic [73;78;84;52] 45 (mkRange (mkPos 2 12) (mkPos 2 16)) [(0, AT (mkTok 45 (mkRange (mkPos 2 12) (mkPos 2 16)) TIdentifier [73;78;84;52]))] []];
    Node KAstGlobalVariableDeclaration [102;108;100] 50 (mkRange (mkPos 3 0) (mkPos 3 10)) [(1, AT (mkTok 50 (mkRange (mkPos 3 0) (mkPos 3 3)) TIdentifier [102;108;100])); (6, AN 0)] [
      Node KAstTypeBasic [73;110;116;52] 56 (mkRange (mkPos 3 6) (mkPos 3 10)) [(0, AT (mkTok 56 (mkRange (mkPos 3 6) (mkPos 3 10)) TIdentifier [73;110;116;52]))] []];
    Node KAstFunction [105;110;105;116] 61 (mkRange (mkPos 4 0) (mkPos 9 7)) [(5, AL [(mkTok 165 (mkRange (mkPos 9 0) (mkPos 9 7)) TEndFunc [69;78;68;70;85;78;67])]); (6, AN 0)] [
      Node KAstTerminal [105;110;105;116] 66 (mkRange (mkPos 4 5) (mkPos 4 9)) [(0, AT (mkTok 66 (mkRange (mkPos 4 5) (mkPos 4 9)) TIdentifier [105;110;105;116]))] [];
      Node KAstTypeBasic [84;69;88;84] 90 (mkRange (mkPos 4 29) (mkPos 4 33)) [(0, AT (mkTok 90 (mkRange (mkPos 4 29) (mkPos 4 33)) TIdentifier [84;69;88;84]))] [];
      Node KAstParameterDeclarationList [112;97;114;97;109;95;100;101;99;108;115] 70 (mkRange (mkPos 4 9) (mkPos 4 21)) [] [
        Node KAstParameterDeclaration [98;97;100] 71 (mkRange (mkPos 4 10) (mkPos 4 20)) [(1, AT (mkTok 71 (mkRange (mkPos 4 10) (mkPos 4 13)) TIdentifier [98;97;100])); (7, AL [])] [
          Node KAstTypeBasic [73;78;84;52] 77 (mkRange (mkPos 4 16) (mkPos 4 20)) [(0, AT (mkTok 77 (mkRange (mkPos 4 16) (mkPos 4 20)) TIdentifier [73;78;84;52]))] []]];
      Node KAstMethodBody [109;101;116;104;111;100;95;98;111;100;121] 97 (mkRange (mkPos 5 2) (mkPos 8 14)) [] [
        Node KAstLocalVariableDeclaration [86;120] 97 (mkRange (mkPos 5 2) (mkPos 5 24)) [(1, AT (mkTok 101 (mkRange (mkPos 5 6) (mkPos 5 8)) TIdentifier [86;120]))] [
          Node KAstTypeBasic [84;86;65;82;66;89;84;69;65;82;82;65;89] 106 (mkRange (mkPos 5 11) (mkPos 5 24)) [(0, AT (mkTok 106 (mkRange (mkPos 5 11) (mkPos 5 24)) TIdentifier [84;86;65;82;66;89;84;69;65;82;82;65;89]))] []];
        Node KAstLocalVariableDeclaration [121] 122 (mkRange (mkPos 6 2) (mkPos 6 14)) [(1, AT (mkTok 126 (mkRange (mkPos 6 6) (mkPos 6 7)) TIdentifier [121]))] [
          Node KAstTypeBasic [73;78;84;52] 130 (mkRange (mkPos 6 10) (mkPos 6 14)) [(0, AT (mkTok 130 (mkRange (mkPos 6 10) (mkPos 6 14)) TIdentifier [73;78;84;52]))] []];
        Node KAstLocalVariableDeclaration [121] 137 (mkRange (mkPos 7 2) (mkPos 7 14)) [(1, AT (mkTok 141 (mkRange (mkPos 7 6) (mkPos 7 7)) TIdentifier [121]))] [
          Node KAstTypeBasic [105;110;116;52] 145 (mkRange (mkPos 7 10) (mkPos 7 14)) [(0, AT (mkTok 145 (mkRange (mkPos 7 10) (mkPos 7 14)) TIdentifier [105;110;116;52]))] []];
        Node KAstLocalVariableDeclaration [122] 152 (mkRange (mkPos 8 2) (mkPos 8 14)) [(1, AT (mkTok 156 (mkRange (mkPos 8 6) (mkPos 8 7)) TIdentifier [122]))] [
          Node KAstTypeBasic [73;110;116;52] 160 (mkRange (mkPos 8 10) (mkPos 8 14)) [(0, AT (mkTok 160 (mkRange (mkPos 8 10) (mkPos 8 14)) TIdentifier [73;110;116;52]))] []]]];
    Node KAstProcedure [87;111;114;107] 173 (mkRange (mkPos 10 0) (mkPos 14 7)) [(5, AL [(mkTok 233 (mkRange (mkPos 14 0) (mkPos 14 7)) TEndProc [101;110;100;112;114;111;99])]); (6, AN 0)] [
      Node KAstTerminal [87;111;114;107] 178 (mkRange (mkPos 10 5) (mkPos 10 9)) [(0, AT (mkTok 178 (mkRange (mkPos 10 5) (mkPos 10 9)) TIdentifier [87;111;114;107]))] [];
      Node KAstMethodBody [109;101;116;104;111;100;95;98;111;100;121] 185 (mkRange (mkPos 11 2) (mkPos 13 10)) [] [
        Node KAstLocalVariableDeclaration [107] 185 (mkRange (mkPos 11 2) (mkPos 11 14)) [(1, AT (mkTok 189 (mkRange (mkPos 11 6) (mkPos 11 7)) TIdentifier [107]))] [
          Node KAstTypeBasic [73;78;84;52] 193 (mkRange (mkPos 11 10) (mkPos 11 14)) [(0, AT (mkTok 193 (mkRange (mkPos 11 10) (mkPos 11 14)) TIdentifier [73;78;84;52]))] []];
        Node KAstLocalVariableDeclaration [118] 200 (mkRange (mkPos 12 2) (mkPos 12 23)) [(1, AT (mkTok 204 (mkRange (mkPos 12 6) (mkPos 12 7)) TIdentifier [118]))] [
          Node KAstTypeBasic [116;118;97;114;98;121;116;101;97;114;114;97;121] 208 (mkRange (mkPos 12 10) (mkPos 12 23)) [(0, AT (mkTok 208 (mkRange (mkPos 12 10) (mkPos 12 23)) TIdentifier [116;118;97;114;98;121;116;101;97;114;114;97;121]))] []];
        Node KAstMethodCall [80;85;82;71;69] 224 (mkRange (mkPos 13 2) (mkPos 13 10)) [] [
          Node KAstTerminal [86] 230 (mkRange (mkPos 13 8) (mkPos 13 9)) [(0, AT (mkTok 230 (mkRange (mkPos 13 8) (mkPos 13 9)) TIdentifier [86]))] []]]]].


(* real parser, text: 'CLASS aKa\n\nFld : INT4\n\nPROC Foo(p1 : Int4)\n   ; body\nENDPROC\n' *)
Definition rc_ka : node :=
  Node KAstRoot [] 0 (mkRange (mkPos 0 0) (mkPos 0 0)) [] [
    Node KAstClass [97;75;97] 0 (mkRange (mkPos 0 0) (mkPos 0 9)) [(1, AT (mkTok 6 (mkRange (mkPos 0 6) (mkPos 0 9)) TIdentifier [97;75;97])); (2, AL [])] [];
    Node KAstGlobalVariableDeclaration [70;108;100] 11 (mkRange (mkPos 2 0) (mkPos 2 10)) [(1, AT (mkTok 11 (mkRange (mkPos 2 0) (mkPos 2 3)) TIdentifier [70;108;100])); (6, AN 0)] [
      Node KAstTypeBasic [73;78;84;52] 17 (mkRange (mkPos 2 6) (mkPos 2 10)) [(0, AT (mkTok 17 (mkRange (mkPos 2 6) (mkPos 2 10)) TIdentifier [73;78;84;52]))] []];
    Node KAstProcedure [70;111;111] 23 (mkRange (mkPos 4 0) (mkPos 6 7)) [(5, AL [(mkTok 53 (mkRange (mkPos 6 0) (mkPos 6 7)) TEndProc [69;78;68;80;82;79;67])]); (6, AN 0)] [
      Node KAstTerminal [70;111;111] 28 (mkRange (mkPos 4 5) (mkPos 4 8)) [(0, AT (mkTok 28 (mkRange (mkPos 4 5) (mkPos 4 8)) TIdentifier [70;111;111]))] [];
      Node KAstParameterDeclarationList [112;97;114;97;109;95;100;101;99;108;115] 31 (mkRange (mkPos 4 8) (mkPos 4 19)) [] [
        Node KAstParameterDeclaration [112;49] 32 (mkRange (mkPos 4 9) (mkPos 4 18)) [(1, AT (mkTok 32 (mkRange (mkPos 4 9) (mkPos 4 11)) TIdentifier [112;49])); (7, AL [])] [
          Node KAstTypeBasic [73;110;116;52] 37 (mkRange (mkPos 4 14) (mkPos 4 18)) [(0, AT (mkTok 37 (mkRange (mkPos 4 14) (mkPos 4 18)) TIdentifier [73;110;116;52]))] []]];
      Node KAstMethodBody [109;101;116;104;111;100;95;98;111;100;121] 46 (mkRange (mkPos 5 3) (mkPos 5 8)) [] [
        Node KAstComment [99;111;109;109;101;110;116] 46 (mkRange (mkPos 5 3) (mkPos 5 8)) [(9, AS [32;98;111;100;121])] []]]].


(* real parser, text: 'Class aKb (aka)\n\nfld : INT4\n\nPROC Foo(p1 : int4) OVERRIDE\n   FLD = P1\nEndProc\n' *)
Definition rc_kb : node :=
  Node KAstRoot [] 0 (mkRange (mkPos 0 0) (mkPos 0 0)) [] [
    Node KAstClass [97;75;98] 0 (mkRange (mkPos 0 0) (mkPos 0 15)) [(1, AT (mkTok 6 (mkRange (mkPos 0 6) (mkPos 0 9)) TIdentifier [97;75;98])); (2, AL [(mkTok 11 (mkRange (mkPos 0 11) (mkPos 0 14)) TIdentifier [97;107;97])])] [];
    Node KAstGlobalVariableDeclaration [102;108;100] 17 (mkRange (mkPos 2 0) (mkPos 2 10)) [(1, AT (mkTok 17 (mkRange (mkPos 2 0) (mkPos 2 3)) TIdentifier [102;108;100])); (6, AN 0)] [
      Node KAstTypeBasic [73;78;84;52] 23 (mkRange (mkPos 2 6) (mkPos 2 10)) [(0, AT (mkTok 23 (mkRange (mkPos 2 6) (mkPos 2 10)) TIdentifier [73;78;84;52]))] []];
    Node KAstProcedure [70;111;111] 29 (mkRange (mkPos 4 0) (mkPos 6 7)) [(5, AL [(mkTok 70 (mkRange (mkPos 6 0) (mkPos 6 7)) TEndProc [69;110;100;80;114;111;99])]); (6, AN 8)] [
      Node KAstTerminal [70;111;111] 34 (mkRange (mkPos 4 5) (mkPos 4 8)) [(0, AT (mkTok 34 (mkRange (mkPos 4 5) (mkPos 4 8)) TIdentifier [70;111;111]))] [];
      Node KAstParameterDeclarationList [112;97;114;97;109;95;100;101;99;108;115] 37 (mkRange (mkPos 4 8) (mkPos 4 19)) [] [
        Node KAstParameterDeclaration [112;49] 38 (mkRange (mkPos 4 9) (mkPos 4 18)) [(1, AT (mkTok 38 (mkRange (mkPos 4 9) (mkPos 4 11)) TIdentifier [112;49])); (7, AL [])] [
          Node KAstTypeBasic [105;110;116;52] 43 (mkRange (mkPos 4 14) (mkPos 4 18)) [(0, AT (mkTok 43 (mkRange (mkPos 4 14) (mkPos 4 18)) TIdentifier [105;110;116;52]))] []]];
      Node KAstMethodBody [109;101;116;104;111;100;95;98;111;100;121] 61 (mkRange (mkPos 5 3) (mkPos 5 11)) [] [
        Node KAstBinaryOp [61] 61 (mkRange (mkPos 5 3) (mkPos 5 11)) [(4, AT (mkTok 65 (mkRange (mkPos 5 7) (mkPos 5 8)) TEquals [61]))] [
          Node KAstTerminal [70;76;68] 61 (mkRange (mkPos 5 3) (mkPos 5 6)) [(0, AT (mkTok 61 (mkRange (mkPos 5 3) (mkPos 5 6)) TIdentifier [70;76;68]))] [];
          Node KAstTerminal [80;49] 67 (mkRange (mkPos 5 9) (mkPos 5 11)) [(0, AT (mkTok 67 (mkRange (mkPos 5 9) (mkPos 5 11)) TIdentifier [80;49]))] []]]]].


(* real parser, text: 'CLASS aKc (AKB)\n\nFUNC Calc(p1 : INT4) RETURN Int4\n   ; body\nENDFUNC\n\nPROC foo(p1 : INT4) Override\nENDPROC\n' *)
Definition rc_kc : node :=
  Node KAstRoot [] 0 (mkRange (mkPos 0 0) (mkPos 0 0)) [] [
    Node KAstClass [97;75;99] 0 (mkRange (mkPos 0 0) (mkPos 0 15)) [(1, AT (mkTok 6 (mkRange (mkPos 0 6) (mkPos 0 9)) TIdentifier [97;75;99])); (2, AL [(mkTok 11 (mkRange (mkPos 0 11) (mkPos 0 14)) TIdentifier [65;75;66])])] [];
    Node KAstFunction [67;97;108;99] 17 (mkRange (mkPos 2 0) (mkPos 4 7)) [(5, AL [(mkTok 60 (mkRange (mkPos 4 0) (mkPos 4 7)) TEndFunc [69;78;68;70;85;78;67])]); (6, AN 0)] [
      Node KAstTerminal [67;97;108;99] 22 (mkRange (mkPos 2 5) (mkPos 2 9)) [(0, AT (mkTok 22 (mkRange (mkPos 2 5) (mkPos 2 9)) TIdentifier [67;97;108;99]))] [];
      Node KAstTypeBasic [73;110;116;52] 45 (mkRange (mkPos 2 28) (mkPos 2 32)) [(0, AT (mkTok 45 (mkRange (mkPos 2 28) (mkPos 2 32)) TIdentifier [73;110;116;52]))] [];
      Node KAstParameterDeclarationList [112;97;114;97;109;95;100;101;99;108;115] 26 (mkRange (mkPos 2 9) (mkPos 2 20)) [] [
        Node KAstParameterDeclaration [112;49] 27 (mkRange (mkPos 2 10) (mkPos 2 19)) [(1, AT (mkTok 27 (mkRange (mkPos 2 10) (mkPos 2 12)) TIdentifier [112;49])); (7, AL [])] [
          Node KAstTypeBasic [73;78;84;52] 32 (mkRange (mkPos 2 15) (mkPos 2 19)) [(0, AT (mkTok 32 (mkRange (mkPos 2 15) (mkPos 2 19)) TIdentifier [73;78;84;52]))] []]];
      Node KAstMethodBody [109;101;116;104;111;100;95;98;111;100;121] 53 (mkRange (mkPos 3 3) (mkPos 3 8)) [] [
        Node KAstComment [99;111;109;109;101;110;116] 53 (mkRange (mkPos 3 3) (mkPos 3 8)) [(9, AS [32;98;111;100;121])] []]];
    Node KAstProcedure [102;111;111] 69 (mkRange (mkPos 6 0) (mkPos 7 7)) [(5, AL [(mkTok 98 (mkRange (mkPos 7 0) (mkPos 7 7)) TEndProc [69;78;68;80;82;79;67])]); (6, AN 8)] [
      Node KAstTerminal [102;111;111] 74 (mkRange (mkPos 6 5) (mkPos 6 8)) [(0, AT (mkTok 74 (mkRange (mkPos 6 5) (mkPos 6 8)) TIdentifier [102;111;111]))] [];
      Node KAstParameterDeclarationList [112;97;114;97;109;95;100;101;99;108;115] 77 (mkRange (mkPos 6 8) (mkPos 6 19)) [] [
        Node KAstParameterDeclaration [112;49] 78 (mkRange (mkPos 6 9) (mkPos 6 18)) [(1, AT (mkTok 78 (mkRange (mkPos 6 9) (mkPos 6 11)) TIdentifier [112;49])); (7, AL [])] [
          Node KAstTypeBasic [73;78;84;52] 83 (mkRange (mkPos 6 14) (mkPos 6 18)) [(0, AT (mkTok 83 (mkRange (mkPos 6 14) (mkPos 6 18)) TIdentifier [73;78;84;52]))] []]];
      Node KAstMethodBody [109;101;116;104;111;100;95;98;111;100;121] 89 (mkRange (mkPos 6 20) (mkPos 6 28)) [] []]].

(* real parser, text: 'class aBeta\nFb : aBeta\nfunc GetLink(p2 : int4) return int4\n  var GetLink : int4\n  x = Fb.GetLink(1)\nendfunc\n' *)
Definition hd_own : node :=
  Node KAstRoot [] 0 (mkRange (mkPos 0 0) (mkPos 0 0)) [] [
    Node KAstClass [97;66;101;116;97] 0 (mkRange (mkPos 0 0) (mkPos 0 11)) [(1, AT (mkTok 6 (mkRange (mkPos 0 6) (mkPos 0 11)) TIdentifier [97;66;101;116;97])); (2, AL [])] [];
    Node KAstGlobalVariableDeclaration [70;98] 12 (mkRange (mkPos 1 0) (mkPos 1 10)) [(1, AT (mkTok 12 (mkRange (mkPos 1 0) (mkPos 1 2)) TIdentifier [70;98])); (6, AN 0)] [
      Node KAstTypeBasic [97;66;101;116;97] 17 (mkRange (mkPos 1 5) (mkPos 1 10)) [(0, AT (mkTok 17 (mkRange (mkPos 1 5) (mkPos 1 10)) TIdentifier [97;66;101;116;97]))] []];
    Node KAstFunction [71;101;116;76;105;110;107] 23 (mkRange (mkPos 2 0) (mkPos 5 7)) [(5, AL [(mkTok 100 (mkRange (mkPos 5 0) (mkPos 5 7)) TEndFunc [101;110;100;102;117;110;99])]); (6, AN 0)] [
      Node KAstTerminal [71;101;116;76;105;110;107] 28 (mkRange (mkPos 2 5) (mkPos 2 12)) [(0, AT (mkTok 28 (mkRange (mkPos 2 5) (mkPos 2 12)) TIdentifier [71;101;116;76;105;110;107]))] [];
      Node KAstTypeBasic [105;110;116;52] 54 (mkRange (mkPos 2 31) (mkPos 2 35)) [(0, AT (mkTok 54 (mkRange (mkPos 2 31) (mkPos 2 35)) TIdentifier [105;110;116;52]))] [];
      Node KAstParameterDeclarationList [112;97;114;97;109;95;100;101;99;108;115] 35 (mkRange (mkPos 2 12) (mkPos 2 23)) [] [
        Node KAstParameterDeclaration [112;50] 36 (mkRange (mkPos 2 13) (mkPos 2 22)) [(1, AT (mkTok 36 (mkRange (mkPos 2 13) (mkPos 2 15)) TIdentifier [112;50])); (7, AL [])] [
          Node KAstTypeBasic [105;110;116;52] 41 (mkRange (mkPos 2 18) (mkPos 2 22)) [(0, AT (mkTok 41 (mkRange (mkPos 2 18) (mkPos 2 22)) TIdentifier [105;110;116;52]))] []]];
      Node KAstMethodBody [109;101;116;104;111;100;95;98;111;100;121] 61 (mkRange (mkPos 3 2) (mkPos 4 19)) [] [
        Node KAstLocalVariableDeclaration [71;101;116;76;105;110;107] 61 (mkRange (mkPos 3 2) (mkPos 3 20)) [(1, AT (mkTok 65 (mkRange (mkPos 3 6) (mkPos 3 13)) TIdentifier [71;101;116;76;105;110;107]))] [
          Node KAstTypeBasic [105;110;116;52] 75 (mkRange (mkPos 3 16) (mkPos 3 20)) [(0, AT (mkTok 75 (mkRange (mkPos 3 16) (mkPos 3 20)) TIdentifier [105;110;116;52]))] []];
        Node KAstBinaryOp [61] 82 (mkRange (mkPos 4 2) (mkPos 4 19)) [(4, AT (mkTok 84 (mkRange (mkPos 4 4) (mkPos 4 5)) TEquals [61]))] [
          Node KAstTerminal [120] 82 (mkRange (mkPos 4 2) (mkPos 4 3)) [(0, AT (mkTok 82 (mkRange (mkPos 4 2) (mkPos 4 3)) TIdentifier [120]))] [];
          Node KAstBinaryOp [46] 86 (mkRange (mkPos 4 6) (mkPos 4 19)) [(4, AT (mkTok 88 (mkRange (mkPos 4 8) (mkPos 4 9)) TDot [46]))] [
            Node KAstTerminal [70;98] 86 (mkRange (mkPos 4 6) (mkPos 4 8)) [(0, AT (mkTok 86 (mkRange (mkPos 4 6) (mkPos 4 8)) TIdentifier [70;98]))] [];
            Node KAstMethodCall [71;101;116;76;105;110;107] 89 (mkRange (mkPos 4 9) (mkPos 4 19)) [] [
              Node KAstTerminal [49] 97 (mkRange (mkPos 4 17) (mkPos 4 18)) [(0, AT (mkTok 97 (mkRange (mkPos 4 17) (mkPos 4 18)) TNumericLiteral [49]))] []]]]]]].

(* real parser, text: 'class aBeta\nFb : abeta\nfunc GetLink(p2 : int4) return int4\n  var GetLink : int4\n  x = Fb.GetLink(1)\nendfunc\n' *)
Definition hd_other : node :=
  Node KAstRoot [] 0 (mkRange (mkPos 0 0) (mkPos 0 0)) [] [
    Node KAstClass [97;66;101;116;97] 0 (mkRange (mkPos 0 0) (mkPos 0 11)) [(1, AT (mkTok 6 (mkRange (mkPos 0 6) (mkPos 0 11)) TIdentifier [97;66;101;116;97])); (2, AL [])] [];
    Node KAstGlobalVariableDeclaration [70;98] 12 (mkRange (mkPos 1 0) (mkPos 1 10)) [(1, AT (mkTok 12 (mkRange (mkPos 1 0) (mkPos 1 2)) TIdentifier [70;98])); (6, AN 0)] [
      Node KAstTypeBasic [97;98;101;116;97] 17 (mkRange (mkPos 1 5) (mkPos 1 10)) [(0, AT (mkTok 17 (mkRange (mkPos 1 5) (mkPos 1 10)) TIdentifier [97;98;101;116;97]))] []];
    Node KAstFunction [71;101;116;76;105;110;107] 23 (mkRange (mkPos 2 0) (mkPos 5 7)) [(5, AL [(mkTok 100 (mkRange (mkPos 5 0) (mkPos 5 7)) TEndFunc [101;110;100;102;117;110;99])]); (6, AN 0)] [
      Node KAstTerminal [71;101;116;76;105;110;107] 28 (mkRange (mkPos 2 5) (mkPos 2 12)) [(0, AT (mkTok 28 (mkRange (mkPos 2 5) (mkPos 2 12)) TIdentifier [71;101;116;76;105;110;107]))] [];
      Node KAstTypeBasic [105;110;116;52] 54 (mkRange (mkPos 2 31) (mkPos 2 35)) [(0, AT (mkTok 54 (mkRange (mkPos 2 31) (mkPos 2 35)) TIdentifier [105;110;116;52]))] [];
      Node KAstParameterDeclarationList [112;97;114;97;109;95;100;101;99;108;115] 35 (mkRange (mkPos 2 12) (mkPos 2 23)) [] [
        Node KAstParameterDeclaration [112;50] 36 (mkRange (mkPos 2 13) (mkPos 2 22)) [(1, AT (mkTok 36 (mkRange (mkPos 2 13) (mkPos 2 15)) TIdentifier [112;50])); (7, AL [])] [
          Node KAstTypeBasic [105;110;116;52] 41 (mkRange (mkPos 2 18) (mkPos 2 22)) [(0, AT (mkTok 41 (mkRange (mkPos 2 18) (mkPos 2 22)) TIdentifier [105;110;116;52]))] []]];
      Node KAstMethodBody [109;101;116;104;111;100;95;98;111;100;121] 61 (mkRange (mkPos 3 2) (mkPos 4 19)) [] [
        Node KAstLocalVariableDeclaration [71;101;116;76;105;110;107] 61 (mkRange (mkPos 3 2) (mkPos 3 20)) [(1, AT (mkTok 65 (mkRange (mkPos 3 6) (mkPos 3 13)) TIdentifier [71;101;116;76;105;110;107]))] [
          Node KAstTypeBasic [105;110;116;52] 75 (mkRange (mkPos 3 16) (mkPos 3 20)) [(0, AT (mkTok 75 (mkRange (mkPos 3 16) (mkPos 3 20)) TIdentifier [105;110;116;52]))] []];
        Node KAstBinaryOp [61] 82 (mkRange (mkPos 4 2) (mkPos 4 19)) [(4, AT (mkTok 84 (mkRange (mkPos 4 4) (mkPos 4 5)) TEquals [61]))] [
          Node KAstTerminal [120] 82 (mkRange (mkPos 4 2) (mkPos 4 3)) [(0, AT (mkTok 82 (mkRange (mkPos 4 2) (mkPos 4 3)) TIdentifier [120]))] [];
          Node KAstBinaryOp [46] 86 (mkRange (mkPos 4 6) (mkPos 4 19)) [(4, AT (mkTok 88 (mkRange (mkPos 4 8) (mkPos 4 9)) TDot [46]))] [
            Node KAstTerminal [70;98] 86 (mkRange (mkPos 4 6) (mkPos 4 8)) [(0, AT (mkTok 86 (mkRange (mkPos 4 6) (mkPos 4 8)) TIdentifier [70;98]))] [];
            Node KAstMethodCall [71;101;116;76;105;110;107] 89 (mkRange (mkPos 4 9) (mkPos 4 19)) [] [
              Node KAstTerminal [49] 97 (mkRange (mkPos 4 17) (mkPos 4 18)) [(0, AT (mkTok 97 (mkRange (mkPos 4 17) (mkPos 4 18)) TNumericLiteral [49]))] []]]]]]].

