(* Concrete trees for Properties/C15.v.  Every tree below is the dump of the tree the REAL parser
   (GoldLexer::lex + parse_gold of /repo) builds for the quoted text, converted by tools/dump2coq.py.
   The checks replay the same texts against the real analyser on every run (checks/c15.py WITNESSES). *)
From GoldV Require Import Base Tokens Lexer AstKinds Tree.

(* real parser, text: 'class aC (aP)\n\nmemory g : int4\n\nproc p(a : int4)\n var x : int4\n var y : int4\n var z : int4\n y = a + 1\n self.x = y\n if y > 0\n  z.foo(1)\n endif\nendproc\n\nfunc f return int4\n var x : int4\n var w : int4\n return x\nendfunc\n' *)
Definition w_ok : node :=
  Node KAstRoot [] 0 (mkRange (mkPos 0 0) (mkPos 0 0)) [] [
    Node KAstClass [97;67] 0 (mkRange (mkPos 0 0) (mkPos 0 13)) [(1, AT (mkTok 6 (mkRange (mkPos 0 6) (mkPos 0 8)) TIdentifier [97;67])); (2, AL [(mkTok 10 (mkRange (mkPos 0 10) (mkPos 0 12)) TIdentifier [97;80])])] [];
    Node KAstGlobalVariableDeclaration [103] 15 (mkRange (mkPos 2 0) (mkPos 2 15)) [(1, AT (mkTok 22 (mkRange (mkPos 2 7) (mkPos 2 8)) TIdentifier [103])); (6, AN 64)] [
      Node KAstTypeBasic [105;110;116;52] 26 (mkRange (mkPos 2 11) (mkPos 2 15)) [(0, AT (mkTok 26 (mkRange (mkPos 2 11) (mkPos 2 15)) TIdentifier [105;110;116;52]))] []];
    Node KAstProcedure [112] 32 (mkRange (mkPos 4 0) (mkPos 13 7)) [(5, AL [(mkTok 142 (mkRange (mkPos 13 0) (mkPos 13 7)) TEndProc [101;110;100;112;114;111;99])]); (6, AN 0)] [
      Node KAstTerminal [112] 37 (mkRange (mkPos 4 5) (mkPos 4 6)) [(0, AT (mkTok 37 (mkRange (mkPos 4 5) (mkPos 4 6)) TIdentifier [112]))] [];
      Node KAstParameterDeclarationList [112;97;114;97;109;95;100;101;99;108;115] 38 (mkRange (mkPos 4 6) (mkPos 4 16)) [] [
        Node KAstParameterDeclaration [97] 39 (mkRange (mkPos 4 7) (mkPos 4 15)) [(1, AT (mkTok 39 (mkRange (mkPos 4 7) (mkPos 4 8)) TIdentifier [97])); (7, AL [])] [
          Node KAstTypeBasic [105;110;116;52] 43 (mkRange (mkPos 4 11) (mkPos 4 15)) [(0, AT (mkTok 43 (mkRange (mkPos 4 11) (mkPos 4 15)) TIdentifier [105;110;116;52]))] []]];
      Node KAstMethodBody [109;101;116;104;111;100;95;98;111;100;121] 50 (mkRange (mkPos 5 1) (mkPos 12 6)) [] [
        Node KAstLocalVariableDeclaration [120] 50 (mkRange (mkPos 5 1) (mkPos 5 13)) [(1, AT (mkTok 54 (mkRange (mkPos 5 5) (mkPos 5 6)) TIdentifier [120]))] [
          Node KAstTypeBasic [105;110;116;52] 58 (mkRange (mkPos 5 9) (mkPos 5 13)) [(0, AT (mkTok 58 (mkRange (mkPos 5 9) (mkPos 5 13)) TIdentifier [105;110;116;52]))] []];
        Node KAstLocalVariableDeclaration [121] 64 (mkRange (mkPos 6 1) (mkPos 6 13)) [(1, AT (mkTok 68 (mkRange (mkPos 6 5) (mkPos 6 6)) TIdentifier [121]))] [
          Node KAstTypeBasic [105;110;116;52] 72 (mkRange (mkPos 6 9) (mkPos 6 13)) [(0, AT (mkTok 72 (mkRange (mkPos 6 9) (mkPos 6 13)) TIdentifier [105;110;116;52]))] []];
        Node KAstLocalVariableDeclaration [122] 78 (mkRange (mkPos 7 1) (mkPos 7 13)) [(1, AT (mkTok 82 (mkRange (mkPos 7 5) (mkPos 7 6)) TIdentifier [122]))] [
          Node KAstTypeBasic [105;110;116;52] 86 (mkRange (mkPos 7 9) (mkPos 7 13)) [(0, AT (mkTok 86 (mkRange (mkPos 7 9) (mkPos 7 13)) TIdentifier [105;110;116;52]))] []];
        Node KAstBinaryOp [61] 92 (mkRange (mkPos 8 1) (mkPos 8 10)) [(4, AT (mkTok 94 (mkRange (mkPos 8 3) (mkPos 8 4)) TEquals [61]))] [
          Node KAstTerminal [121] 92 (mkRange (mkPos 8 1) (mkPos 8 2)) [(0, AT (mkTok 92 (mkRange (mkPos 8 1) (mkPos 8 2)) TIdentifier [121]))] [];
          Node KAstBinaryOp [43] 96 (mkRange (mkPos 8 5) (mkPos 8 10)) [(4, AT (mkTok 98 (mkRange (mkPos 8 7) (mkPos 8 8)) TPlus [43]))] [
            Node KAstTerminal [97] 96 (mkRange (mkPos 8 5) (mkPos 8 6)) [(0, AT (mkTok 96 (mkRange (mkPos 8 5) (mkPos 8 6)) TIdentifier [97]))] [];
            Node KAstTerminal [49] 100 (mkRange (mkPos 8 9) (mkPos 8 10)) [(0, AT (mkTok 100 (mkRange (mkPos 8 9) (mkPos 8 10)) TNumericLiteral [49]))] []]];
        Node KAstBinaryOp [61] 103 (mkRange (mkPos 9 1) (mkPos 9 11)) [(4, AT (mkTok 110 (mkRange (mkPos 9 8) (mkPos 9 9)) TEquals [61]))] [
          Node KAstBinaryOp [46] 103 (mkRange (mkPos 9 1) (mkPos 9 7)) [(4, AT (mkTok 107 (mkRange (mkPos 9 5) (mkPos 9 6)) TDot [46]))] [
            Node KAstTerminal [115;101;108;102] 103 (mkRange (mkPos 9 1) (mkPos 9 5)) [(0, AT (mkTok 103 (mkRange (mkPos 9 1) (mkPos 9 5)) TIdentifier [115;101;108;102]))] [];
            Node KAstTerminal [120] 108 (mkRange (mkPos 9 6) (mkPos 9 7)) [(0, AT (mkTok 108 (mkRange (mkPos 9 6) (mkPos 9 7)) TIdentifier [120]))] []];
          Node KAstTerminal [121] 112 (mkRange (mkPos 9 10) (mkPos 9 11)) [(0, AT (mkTok 112 (mkRange (mkPos 9 10) (mkPos 9 11)) TIdentifier [121]))] []];
        Node KAstIfBlock [105;102] 115 (mkRange (mkPos 10 1) (mkPos 12 6)) [(5, AL [(mkTok 136 (mkRange (mkPos 12 1) (mkPos 12 6)) TEndIf [101;110;100;105;102])])] [
          Node KAstConditionalBlock [99;111;110;100;95;98;108;111;99;107] 115 (mkRange (mkPos 10 1) (mkPos 11 10)) [] [
            Node KAstBinaryOp [62] 118 (mkRange (mkPos 10 4) (mkPos 10 9)) [(4, AT (mkTok 120 (mkRange (mkPos 10 6) (mkPos 10 7)) TGreaterThan [62]))] [
              Node KAstTerminal [121] 118 (mkRange (mkPos 10 4) (mkPos 10 5)) [(0, AT (mkTok 118 (mkRange (mkPos 10 4) (mkPos 10 5)) TIdentifier [121]))] [];
              Node KAstTerminal [48] 122 (mkRange (mkPos 10 8) (mkPos 10 9)) [(0, AT (mkTok 122 (mkRange (mkPos 10 8) (mkPos 10 9)) TNumericLiteral [48]))] []];
            Node KAstBinaryOp [46] 126 (mkRange (mkPos 11 2) (mkPos 11 10)) [(4, AT (mkTok 127 (mkRange (mkPos 11 3) (mkPos 11 4)) TDot [46]))] [
              Node KAstTerminal [122] 126 (mkRange (mkPos 11 2) (mkPos 11 3)) [(0, AT (mkTok 126 (mkRange (mkPos 11 2) (mkPos 11 3)) TIdentifier [122]))] [];
              Node KAstMethodCall [102;111;111] 128 (mkRange (mkPos 11 4) (mkPos 11 10)) [] [
                Node KAstTerminal [49] 132 (mkRange (mkPos 11 8) (mkPos 11 9)) [(0, AT (mkTok 132 (mkRange (mkPos 11 8) (mkPos 11 9)) TNumericLiteral [49]))] []]]]]]];
    Node KAstFunction [102] 151 (mkRange (mkPos 15 0) (mkPos 19 7)) [(5, AL [(mkTok 208 (mkRange (mkPos 19 0) (mkPos 19 7)) TEndFunc [101;110;100;102;117;110;99])]); (6, AN 0)] [
      Node KAstTerminal [102] 156 (mkRange (mkPos 15 5) (mkPos 15 6)) [(0, AT (mkTok 156 (mkRange (mkPos 15 5) (mkPos 15 6)) TIdentifier [102]))] [];
      Node KAstTypeBasic [105;110;116;52] 165 (mkRange (mkPos 15 14) (mkPos 15 18)) [(0, AT (mkTok 165 (mkRange (mkPos 15 14) (mkPos 15 18)) TIdentifier [105;110;116;52]))] [];
      Node KAstMethodBody [109;101;116;104;111;100;95;98;111;100;121] 171 (mkRange (mkPos 16 1) (mkPos 18 9)) [] [
        Node KAstLocalVariableDeclaration [120] 171 (mkRange (mkPos 16 1) (mkPos 16 13)) [(1, AT (mkTok 175 (mkRange (mkPos 16 5) (mkPos 16 6)) TIdentifier [120]))] [
          Node KAstTypeBasic [105;110;116;52] 179 (mkRange (mkPos 16 9) (mkPos 16 13)) [(0, AT (mkTok 179 (mkRange (mkPos 16 9) (mkPos 16 13)) TIdentifier [105;110;116;52]))] []];
        Node KAstLocalVariableDeclaration [119] 185 (mkRange (mkPos 17 1) (mkPos 17 13)) [(1, AT (mkTok 189 (mkRange (mkPos 17 5) (mkPos 17 6)) TIdentifier [119]))] [
          Node KAstTypeBasic [105;110;116;52] 193 (mkRange (mkPos 17 9) (mkPos 17 13)) [(0, AT (mkTok 193 (mkRange (mkPos 17 9) (mkPos 17 13)) TIdentifier [105;110;116;52]))] []];
        Node KAstReturnNode [114;101;116;117;114;110] 199 (mkRange (mkPos 18 1) (mkPos 18 9)) [] [
          Node KAstTerminal [120] 206 (mkRange (mkPos 18 8) (mkPos 18 9)) [(0, AT (mkTok 206 (mkRange (mkPos 18 8) (mkPos 18 9)) TIdentifier [120]))] []]]]].

(* real parser, text: 'proc p\n var x : int4\n X = 1\nendproc' *)
Definition w_case : node :=
  Node KAstRoot [] 0 (mkRange (mkPos 0 0) (mkPos 0 0)) [] [
    Node KAstProcedure [112] 0 (mkRange (mkPos 0 0) (mkPos 3 7)) [(5, AL [(mkTok 28 (mkRange (mkPos 3 0) (mkPos 3 7)) TEndProc [101;110;100;112;114;111;99])]); (6, AN 0)] [
      Node KAstTerminal [112] 5 (mkRange (mkPos 0 5) (mkPos 0 6)) [(0, AT (mkTok 5 (mkRange (mkPos 0 5) (mkPos 0 6)) TIdentifier [112]))] [];
      Node KAstMethodBody [109;101;116;104;111;100;95;98;111;100;121] 8 (mkRange (mkPos 1 1) (mkPos 2 6)) [] [
        Node KAstLocalVariableDeclaration [120] 8 (mkRange (mkPos 1 1) (mkPos 1 13)) [(1, AT (mkTok 12 (mkRange (mkPos 1 5) (mkPos 1 6)) TIdentifier [120]))] [
          Node KAstTypeBasic [105;110;116;52] 16 (mkRange (mkPos 1 9) (mkPos 1 13)) [(0, AT (mkTok 16 (mkRange (mkPos 1 9) (mkPos 1 13)) TIdentifier [105;110;116;52]))] []];
        Node KAstBinaryOp [61] 22 (mkRange (mkPos 2 1) (mkPos 2 6)) [(4, AT (mkTok 24 (mkRange (mkPos 2 3) (mkPos 2 4)) TEquals [61]))] [
          Node KAstTerminal [88] 22 (mkRange (mkPos 2 1) (mkPos 2 2)) [(0, AT (mkTok 22 (mkRange (mkPos 2 1) (mkPos 2 2)) TIdentifier [88]))] [];
          Node KAstTerminal [49] 26 (mkRange (mkPos 2 5) (mkPos 2 6)) [(0, AT (mkTok 26 (mkRange (mkPos 2 5) (mkPos 2 6)) TNumericLiteral [49]))] []]]]].

(* real parser, text: "proc p\n var s : int4\n foo('s')\nendproc" *)
Definition w_lit : node :=
  Node KAstRoot [] 0 (mkRange (mkPos 0 0) (mkPos 0 0)) [] [
    Node KAstProcedure [112] 0 (mkRange (mkPos 0 0) (mkPos 3 7)) [(5, AL [(mkTok 31 (mkRange (mkPos 3 0) (mkPos 3 7)) TEndProc [101;110;100;112;114;111;99])]); (6, AN 0)] [
      Node KAstTerminal [112] 5 (mkRange (mkPos 0 5) (mkPos 0 6)) [(0, AT (mkTok 5 (mkRange (mkPos 0 5) (mkPos 0 6)) TIdentifier [112]))] [];
      Node KAstMethodBody [109;101;116;104;111;100;95;98;111;100;121] 8 (mkRange (mkPos 1 1) (mkPos 2 9)) [] [
        Node KAstLocalVariableDeclaration [115] 8 (mkRange (mkPos 1 1) (mkPos 1 13)) [(1, AT (mkTok 12 (mkRange (mkPos 1 5) (mkPos 1 6)) TIdentifier [115]))] [
          Node KAstTypeBasic [105;110;116;52] 16 (mkRange (mkPos 1 9) (mkPos 1 13)) [(0, AT (mkTok 16 (mkRange (mkPos 1 9) (mkPos 1 13)) TIdentifier [105;110;116;52]))] []];
        Node KAstMethodCall [102;111;111] 22 (mkRange (mkPos 2 1) (mkPos 2 9)) [] [
          Node KAstTerminal [115] 26 (mkRange (mkPos 2 5) (mkPos 2 6)) [(0, AT (mkTok 26 (mkRange (mkPos 2 5) (mkPos 2 6)) TStringLiteral [115]))] []]]]].

(* real parser, text: 'proc p\n x = 1\n var x : int4\nendproc' *)
Definition w_order : node :=
  Node KAstRoot [] 0 (mkRange (mkPos 0 0) (mkPos 0 0)) [] [
    Node KAstProcedure [112] 0 (mkRange (mkPos 0 0) (mkPos 3 7)) [(5, AL [(mkTok 28 (mkRange (mkPos 3 0) (mkPos 3 7)) TEndProc [101;110;100;112;114;111;99])]); (6, AN 0)] [
      Node KAstTerminal [112] 5 (mkRange (mkPos 0 5) (mkPos 0 6)) [(0, AT (mkTok 5 (mkRange (mkPos 0 5) (mkPos 0 6)) TIdentifier [112]))] [];
      Node KAstMethodBody [109;101;116;104;111;100;95;98;111;100;121] 8 (mkRange (mkPos 1 1) (mkPos 2 13)) [] [
        Node KAstBinaryOp [61] 8 (mkRange (mkPos 1 1) (mkPos 1 6)) [(4, AT (mkTok 10 (mkRange (mkPos 1 3) (mkPos 1 4)) TEquals [61]))] [
          Node KAstTerminal [120] 8 (mkRange (mkPos 1 1) (mkPos 1 2)) [(0, AT (mkTok 8 (mkRange (mkPos 1 1) (mkPos 1 2)) TIdentifier [120]))] [];
          Node KAstTerminal [49] 12 (mkRange (mkPos 1 5) (mkPos 1 6)) [(0, AT (mkTok 12 (mkRange (mkPos 1 5) (mkPos 1 6)) TNumericLiteral [49]))] []];
        Node KAstLocalVariableDeclaration [120] 15 (mkRange (mkPos 2 1) (mkPos 2 13)) [(1, AT (mkTok 19 (mkRange (mkPos 2 5) (mkPos 2 6)) TIdentifier [120]))] [
          Node KAstTypeBasic [105;110;116;52] 23 (mkRange (mkPos 2 9) (mkPos 2 13)) [(0, AT (mkTok 23 (mkRange (mkPos 2 9) (mkPos 2 13)) TIdentifier [105;110;116;52]))] []]]]].

(* real parser, text: 'proc p\n var x : int4\n var x : int4\nendproc' *)
Definition w_dup : node :=
  Node KAstRoot [] 0 (mkRange (mkPos 0 0) (mkPos 0 0)) [] [
    Node KAstProcedure [112] 0 (mkRange (mkPos 0 0) (mkPos 3 7)) [(5, AL [(mkTok 35 (mkRange (mkPos 3 0) (mkPos 3 7)) TEndProc [101;110;100;112;114;111;99])]); (6, AN 0)] [
      Node KAstTerminal [112] 5 (mkRange (mkPos 0 5) (mkPos 0 6)) [(0, AT (mkTok 5 (mkRange (mkPos 0 5) (mkPos 0 6)) TIdentifier [112]))] [];
      Node KAstMethodBody [109;101;116;104;111;100;95;98;111;100;121] 8 (mkRange (mkPos 1 1) (mkPos 2 13)) [] [
        Node KAstLocalVariableDeclaration [120] 8 (mkRange (mkPos 1 1) (mkPos 1 13)) [(1, AT (mkTok 12 (mkRange (mkPos 1 5) (mkPos 1 6)) TIdentifier [120]))] [
          Node KAstTypeBasic [105;110;116;52] 16 (mkRange (mkPos 1 9) (mkPos 1 13)) [(0, AT (mkTok 16 (mkRange (mkPos 1 9) (mkPos 1 13)) TIdentifier [105;110;116;52]))] []];
        Node KAstLocalVariableDeclaration [120] 22 (mkRange (mkPos 2 1) (mkPos 2 13)) [(1, AT (mkTok 26 (mkRange (mkPos 2 5) (mkPos 2 6)) TIdentifier [120]))] [
          Node KAstTypeBasic [105;110;116;52] 30 (mkRange (mkPos 2 9) (mkPos 2 13)) [(0, AT (mkTok 30 (mkRange (mkPos 2 9) (mkPos 2 13)) TIdentifier [105;110;116;52]))] []]]]].

(* real parser, text: 'proc p\n var x : int4\nendproc\nproc q\nendproc\nmemory f : int4 absolute x' *)
Definition w_trail_0 : node :=
  Node KAstProcedure [112] 0 (mkRange (mkPos 0 0) (mkPos 2 7)) [(5, AL [(mkTok 21 (mkRange (mkPos 2 0) (mkPos 2 7)) TEndProc [101;110;100;112;114;111;99])]); (6, AN 0)] [
    Node KAstTerminal [112] 5 (mkRange (mkPos 0 5) (mkPos 0 6)) [(0, AT (mkTok 5 (mkRange (mkPos 0 5) (mkPos 0 6)) TIdentifier [112]))] [];
    Node KAstMethodBody [109;101;116;104;111;100;95;98;111;100;121] 8 (mkRange (mkPos 1 1) (mkPos 1 13)) [] [
      Node KAstLocalVariableDeclaration [120] 8 (mkRange (mkPos 1 1) (mkPos 1 13)) [(1, AT (mkTok 12 (mkRange (mkPos 1 5) (mkPos 1 6)) TIdentifier [120]))] [
        Node KAstTypeBasic [105;110;116;52] 16 (mkRange (mkPos 1 9) (mkPos 1 13)) [(0, AT (mkTok 16 (mkRange (mkPos 1 9) (mkPos 1 13)) TIdentifier [105;110;116;52]))] []]]].

Definition w_trail_1 : node :=
  Node KAstProcedure [113] 29 (mkRange (mkPos 3 0) (mkPos 4 7)) [(5, AL [(mkTok 36 (mkRange (mkPos 4 0) (mkPos 4 7)) TEndProc [101;110;100;112;114;111;99])]); (6, AN 0)] [
    Node KAstTerminal [113] 34 (mkRange (mkPos 3 5) (mkPos 3 6)) [(0, AT (mkTok 34 (mkRange (mkPos 3 5) (mkPos 3 6)) TIdentifier [113]))] [];
    Node KAstMethodBody [109;101;116;104;111;100;95;98;111;100;121] 34 (mkRange (mkPos 3 5) (mkPos 3 6)) [] []].

Definition w_trail_2 : node :=
  Node KAstGlobalVariableDeclaration [102] 44 (mkRange (mkPos 5 0) (mkPos 5 26)) [(1, AT (mkTok 51 (mkRange (mkPos 5 7) (mkPos 5 8)) TIdentifier [102])); (6, AN 64)] [
    Node KAstTypeBasic [105;110;116;52] 55 (mkRange (mkPos 5 11) (mkPos 5 15)) [(0, AT (mkTok 55 (mkRange (mkPos 5 11) (mkPos 5 15)) TIdentifier [105;110;116;52]))] [];
    Node KAstTerminal [120] 69 (mkRange (mkPos 5 25) (mkPos 5 26)) [(0, AT (mkTok 69 (mkRange (mkPos 5 25) (mkPos 5 26)) TIdentifier [120]))] []].

Definition w_trail : node :=
  Node KAstRoot [] 0 (mkRange (mkPos 0 0) (mkPos 0 0)) [] [
    w_trail_0;
    w_trail_1;
    w_trail_2].

(* real parser, text: 'proc p\n var x : int4\n x(1)\nendproc' *)
Definition w_callee : node :=
  Node KAstRoot [] 0 (mkRange (mkPos 0 0) (mkPos 0 0)) [] [
    Node KAstProcedure [112] 0 (mkRange (mkPos 0 0) (mkPos 3 7)) [(5, AL [(mkTok 27 (mkRange (mkPos 3 0) (mkPos 3 7)) TEndProc [101;110;100;112;114;111;99])]); (6, AN 0)] [
      Node KAstTerminal [112] 5 (mkRange (mkPos 0 5) (mkPos 0 6)) [(0, AT (mkTok 5 (mkRange (mkPos 0 5) (mkPos 0 6)) TIdentifier [112]))] [];
      Node KAstMethodBody [109;101;116;104;111;100;95;98;111;100;121] 8 (mkRange (mkPos 1 1) (mkPos 2 5)) [] [
        Node KAstLocalVariableDeclaration [120] 8 (mkRange (mkPos 1 1) (mkPos 1 13)) [(1, AT (mkTok 12 (mkRange (mkPos 1 5) (mkPos 1 6)) TIdentifier [120]))] [
          Node KAstTypeBasic [105;110;116;52] 16 (mkRange (mkPos 1 9) (mkPos 1 13)) [(0, AT (mkTok 16 (mkRange (mkPos 1 9) (mkPos 1 13)) TIdentifier [105;110;116;52]))] []];
        Node KAstMethodCall [120] 22 (mkRange (mkPos 2 1) (mkPos 2 5)) [] [
          Node KAstTerminal [49] 24 (mkRange (mkPos 2 3) (mkPos 2 4)) [(0, AT (mkTok 24 (mkRange (mkPos 2 3) (mkPos 2 4)) TNumericLiteral [49]))] []]]]].

(* real parser, text: 'proc p\n var x : int4\n for x = 1 to 3\n  foo()\n endfor\nendproc' *)
Definition w_forctr : node :=
  Node KAstRoot [] 0 (mkRange (mkPos 0 0) (mkPos 0 0)) [] [
    Node KAstProcedure [112] 0 (mkRange (mkPos 0 0) (mkPos 5 7)) [(5, AL [(mkTok 53 (mkRange (mkPos 5 0) (mkPos 5 7)) TEndProc [101;110;100;112;114;111;99])]); (6, AN 0)] [
      Node KAstTerminal [112] 5 (mkRange (mkPos 0 5) (mkPos 0 6)) [(0, AT (mkTok 5 (mkRange (mkPos 0 5) (mkPos 0 6)) TIdentifier [112]))] [];
      Node KAstMethodBody [109;101;116;104;111;100;95;98;111;100;121] 8 (mkRange (mkPos 1 1) (mkPos 4 7)) [] [
        Node KAstLocalVariableDeclaration [120] 8 (mkRange (mkPos 1 1) (mkPos 1 13)) [(1, AT (mkTok 12 (mkRange (mkPos 1 5) (mkPos 1 6)) TIdentifier [120]))] [
          Node KAstTypeBasic [105;110;116;52] 16 (mkRange (mkPos 1 9) (mkPos 1 13)) [(0, AT (mkTok 16 (mkRange (mkPos 1 9) (mkPos 1 13)) TIdentifier [105;110;116;52]))] []];
        Node KAstForBlock [102;111;114] 22 (mkRange (mkPos 2 1) (mkPos 4 7)) [(1, AT (mkTok 26 (mkRange (mkPos 2 5) (mkPos 2 6)) TIdentifier [120])); (5, AL [(mkTok 46 (mkRange (mkPos 4 1) (mkPos 4 7)) TEndFor [101;110;100;102;111;114])])] [
          Node KAstBinaryOp [116;111] 30 (mkRange (mkPos 2 9) (mkPos 2 15)) [(4, AT (mkTok 32 (mkRange (mkPos 2 11) (mkPos 2 13)) TTo [116;111]))] [
            Node KAstTerminal [49] 30 (mkRange (mkPos 2 9) (mkPos 2 10)) [(0, AT (mkTok 30 (mkRange (mkPos 2 9) (mkPos 2 10)) TNumericLiteral [49]))] [];
            Node KAstTerminal [51] 35 (mkRange (mkPos 2 14) (mkPos 2 15)) [(0, AT (mkTok 35 (mkRange (mkPos 2 14) (mkPos 2 15)) TNumericLiteral [51]))] []];
          Node KAstMethodCall [102;111;111] 39 (mkRange (mkPos 3 2) (mkPos 3 7)) [] []]]]].

(* real parser, text: 'proc p\n var x : int4\n self.x[1] = 2\nendproc' *)
Definition w_indexed : node :=
  Node KAstRoot [] 0 (mkRange (mkPos 0 0) (mkPos 0 0)) [] [
    Node KAstProcedure [112] 0 (mkRange (mkPos 0 0) (mkPos 3 7)) [(5, AL [(mkTok 36 (mkRange (mkPos 3 0) (mkPos 3 7)) TEndProc [101;110;100;112;114;111;99])]); (6, AN 0)] [
      Node KAstTerminal [112] 5 (mkRange (mkPos 0 5) (mkPos 0 6)) [(0, AT (mkTok 5 (mkRange (mkPos 0 5) (mkPos 0 6)) TIdentifier [112]))] [];
      Node KAstMethodBody [109;101;116;104;111;100;95;98;111;100;121] 8 (mkRange (mkPos 1 1) (mkPos 2 14)) [] [
        Node KAstLocalVariableDeclaration [120] 8 (mkRange (mkPos 1 1) (mkPos 1 13)) [(1, AT (mkTok 12 (mkRange (mkPos 1 5) (mkPos 1 6)) TIdentifier [120]))] [
          Node KAstTypeBasic [105;110;116;52] 16 (mkRange (mkPos 1 9) (mkPos 1 13)) [(0, AT (mkTok 16 (mkRange (mkPos 1 9) (mkPos 1 13)) TIdentifier [105;110;116;52]))] []];
        Node KAstBinaryOp [61] 22 (mkRange (mkPos 2 1) (mkPos 2 14)) [(4, AT (mkTok 32 (mkRange (mkPos 2 11) (mkPos 2 12)) TEquals [61]))] [
          Node KAstBinaryOp [46] 22 (mkRange (mkPos 2 1) (mkPos 2 10)) [(4, AT (mkTok 26 (mkRange (mkPos 2 5) (mkPos 2 6)) TDot [46]))] [
            Node KAstTerminal [115;101;108;102] 22 (mkRange (mkPos 2 1) (mkPos 2 5)) [(0, AT (mkTok 22 (mkRange (mkPos 2 1) (mkPos 2 5)) TIdentifier [115;101;108;102]))] [];
            Node KAstArrayAccess [120] 27 (mkRange (mkPos 2 6) (mkPos 2 10)) [] [
              Node KAstTerminal [120] 27 (mkRange (mkPos 2 6) (mkPos 2 7)) [(0, AT (mkTok 27 (mkRange (mkPos 2 6) (mkPos 2 7)) TIdentifier [120]))] [];
              Node KAstTerminal [49] 29 (mkRange (mkPos 2 8) (mkPos 2 9)) [(0, AT (mkTok 29 (mkRange (mkPos 2 8) (mkPos 2 9)) TNumericLiteral [49]))] []]];
          Node KAstTerminal [50] 34 (mkRange (mkPos 2 13) (mkPos 2 14)) [(0, AT (mkTok 34 (mkRange (mkPos 2 13) (mkPos 2 14)) TNumericLiteral [50]))] []]]]].

(* ---- added with the repair of the analyser (tools/c15_proposed_fix.diff): the method header is not a statement,
        a called member, and one method mixing all the constructs ---- *)

(* real parser, text: 'proc x\n var x : int4\nendproc' *)
Definition w_hdr_name : node :=
  Node KAstRoot [] 0 (mkRange (mkPos 0 0) (mkPos 0 0)) [] [
    Node KAstProcedure [120] 0 (mkRange (mkPos 0 0) (mkPos 2 7)) [(5, AL [(mkTok 21 (mkRange (mkPos 2 0) (mkPos 2 7)) TEndProc [101;110;100;112;114;111;99])]); (6, AN 0)] [
      Node KAstTerminal [120] 5 (mkRange (mkPos 0 5) (mkPos 0 6)) [(0, AT (mkTok 5 (mkRange (mkPos 0 5) (mkPos 0 6)) TIdentifier [120]))] [];
      Node KAstMethodBody [109;101;116;104;111;100;95;98;111;100;121] 8 (mkRange (mkPos 1 1) (mkPos 1 13)) [] [
        Node KAstLocalVariableDeclaration [120] 8 (mkRange (mkPos 1 1) (mkPos 1 13)) [(1, AT (mkTok 12 (mkRange (mkPos 1 5) (mkPos 1 6)) TIdentifier [120]))] [
          Node KAstTypeBasic [105;110;116;52] 16 (mkRange (mkPos 1 9) (mkPos 1 13)) [(0, AT (mkTok 16 (mkRange (mkPos 1 9) (mkPos 1 13)) TIdentifier [105;110;116;52]))] []]]]].

(* real parser, text: 'proc p(x : int4)\n var x : int4\nendproc' *)
Definition w_hdr_param : node :=
  Node KAstRoot [] 0 (mkRange (mkPos 0 0) (mkPos 0 0)) [] [
    Node KAstProcedure [112] 0 (mkRange (mkPos 0 0) (mkPos 2 7)) [(5, AL [(mkTok 31 (mkRange (mkPos 2 0) (mkPos 2 7)) TEndProc [101;110;100;112;114;111;99])]); (6, AN 0)] [
      Node KAstTerminal [112] 5 (mkRange (mkPos 0 5) (mkPos 0 6)) [(0, AT (mkTok 5 (mkRange (mkPos 0 5) (mkPos 0 6)) TIdentifier [112]))] [];
      Node KAstParameterDeclarationList [112;97;114;97;109;95;100;101;99;108;115] 6 (mkRange (mkPos 0 6) (mkPos 0 16)) [] [
        Node KAstParameterDeclaration [120] 7 (mkRange (mkPos 0 7) (mkPos 0 15)) [(1, AT (mkTok 7 (mkRange (mkPos 0 7) (mkPos 0 8)) TIdentifier [120])); (7, AL [])] [
          Node KAstTypeBasic [105;110;116;52] 11 (mkRange (mkPos 0 11) (mkPos 0 15)) [(0, AT (mkTok 11 (mkRange (mkPos 0 11) (mkPos 0 15)) TIdentifier [105;110;116;52]))] []]];
      Node KAstMethodBody [109;101;116;104;111;100;95;98;111;100;121] 18 (mkRange (mkPos 1 1) (mkPos 1 13)) [] [
        Node KAstLocalVariableDeclaration [120] 18 (mkRange (mkPos 1 1) (mkPos 1 13)) [(1, AT (mkTok 22 (mkRange (mkPos 1 5) (mkPos 1 6)) TIdentifier [120]))] [
          Node KAstTypeBasic [105;110;116;52] 26 (mkRange (mkPos 1 9) (mkPos 1 13)) [(0, AT (mkTok 26 (mkRange (mkPos 1 9) (mkPos 1 13)) TIdentifier [105;110;116;52]))] []]]]].

(* real parser, text: 'proc p\n var x : int4\n self.x(1)\nendproc' *)
Definition w_member_call : node :=
  Node KAstRoot [] 0 (mkRange (mkPos 0 0) (mkPos 0 0)) [] [
    Node KAstProcedure [112] 0 (mkRange (mkPos 0 0) (mkPos 3 7)) [(5, AL [(mkTok 32 (mkRange (mkPos 3 0) (mkPos 3 7)) TEndProc [101;110;100;112;114;111;99])]); (6, AN 0)] [
      Node KAstTerminal [112] 5 (mkRange (mkPos 0 5) (mkPos 0 6)) [(0, AT (mkTok 5 (mkRange (mkPos 0 5) (mkPos 0 6)) TIdentifier [112]))] [];
      Node KAstMethodBody [109;101;116;104;111;100;95;98;111;100;121] 8 (mkRange (mkPos 1 1) (mkPos 2 10)) [] [
        Node KAstLocalVariableDeclaration [120] 8 (mkRange (mkPos 1 1) (mkPos 1 13)) [(1, AT (mkTok 12 (mkRange (mkPos 1 5) (mkPos 1 6)) TIdentifier [120]))] [
          Node KAstTypeBasic [105;110;116;52] 16 (mkRange (mkPos 1 9) (mkPos 1 13)) [(0, AT (mkTok 16 (mkRange (mkPos 1 9) (mkPos 1 13)) TIdentifier [105;110;116;52]))] []];
        Node KAstBinaryOp [46] 22 (mkRange (mkPos 2 1) (mkPos 2 10)) [(4, AT (mkTok 26 (mkRange (mkPos 2 5) (mkPos 2 6)) TDot [46]))] [
          Node KAstTerminal [115;101;108;102] 22 (mkRange (mkPos 2 1) (mkPos 2 5)) [(0, AT (mkTok 22 (mkRange (mkPos 2 1) (mkPos 2 5)) TIdentifier [115;101;108;102]))] [];
          Node KAstMethodCall [120] 27 (mkRange (mkPos 2 6) (mkPos 2 10)) [] [
            Node KAstTerminal [49] 29 (mkRange (mkPos 2 8) (mkPos 2 9)) [(0, AT (mkTok 29 (mkRange (mkPos 2 8) (mkPos 2 9)) TNumericLiteral [49]))] []]]]]].

(* real parser, text: 'proc p\n var a : int4\n var b : int4\n var c : int4\n var d : int4\n for A = 1 to 3\n  ob.a(B).c[d] = 1\n endfor\nendproc' *)
Definition w_mixed : node :=
  Node KAstRoot [] 0 (mkRange (mkPos 0 0) (mkPos 0 0)) [] [
    Node KAstProcedure [112] 0 (mkRange (mkPos 0 0) (mkPos 8 7)) [(5, AL [(mkTok 106 (mkRange (mkPos 8 0) (mkPos 8 7)) TEndProc [101;110;100;112;114;111;99])]); (6, AN 0)] [
      Node KAstTerminal [112] 5 (mkRange (mkPos 0 5) (mkPos 0 6)) [(0, AT (mkTok 5 (mkRange (mkPos 0 5) (mkPos 0 6)) TIdentifier [112]))] [];
      Node KAstMethodBody [109;101;116;104;111;100;95;98;111;100;121] 8 (mkRange (mkPos 1 1) (mkPos 7 7)) [] [
        Node KAstLocalVariableDeclaration [97] 8 (mkRange (mkPos 1 1) (mkPos 1 13)) [(1, AT (mkTok 12 (mkRange (mkPos 1 5) (mkPos 1 6)) TIdentifier [97]))] [
          Node KAstTypeBasic [105;110;116;52] 16 (mkRange (mkPos 1 9) (mkPos 1 13)) [(0, AT (mkTok 16 (mkRange (mkPos 1 9) (mkPos 1 13)) TIdentifier [105;110;116;52]))] []];
        Node KAstLocalVariableDeclaration [98] 22 (mkRange (mkPos 2 1) (mkPos 2 13)) [(1, AT (mkTok 26 (mkRange (mkPos 2 5) (mkPos 2 6)) TIdentifier [98]))] [
          Node KAstTypeBasic [105;110;116;52] 30 (mkRange (mkPos 2 9) (mkPos 2 13)) [(0, AT (mkTok 30 (mkRange (mkPos 2 9) (mkPos 2 13)) TIdentifier [105;110;116;52]))] []];
        Node KAstLocalVariableDeclaration [99] 36 (mkRange (mkPos 3 1) (mkPos 3 13)) [(1, AT (mkTok 40 (mkRange (mkPos 3 5) (mkPos 3 6)) TIdentifier [99]))] [
          Node KAstTypeBasic [105;110;116;52] 44 (mkRange (mkPos 3 9) (mkPos 3 13)) [(0, AT (mkTok 44 (mkRange (mkPos 3 9) (mkPos 3 13)) TIdentifier [105;110;116;52]))] []];
        Node KAstLocalVariableDeclaration [100] 50 (mkRange (mkPos 4 1) (mkPos 4 13)) [(1, AT (mkTok 54 (mkRange (mkPos 4 5) (mkPos 4 6)) TIdentifier [100]))] [
          Node KAstTypeBasic [105;110;116;52] 58 (mkRange (mkPos 4 9) (mkPos 4 13)) [(0, AT (mkTok 58 (mkRange (mkPos 4 9) (mkPos 4 13)) TIdentifier [105;110;116;52]))] []];
        Node KAstForBlock [102;111;114] 64 (mkRange (mkPos 5 1) (mkPos 7 7)) [(1, AT (mkTok 68 (mkRange (mkPos 5 5) (mkPos 5 6)) TIdentifier [65])); (5, AL [(mkTok 99 (mkRange (mkPos 7 1) (mkPos 7 7)) TEndFor [101;110;100;102;111;114])])] [
          Node KAstBinaryOp [116;111] 72 (mkRange (mkPos 5 9) (mkPos 5 15)) [(4, AT (mkTok 74 (mkRange (mkPos 5 11) (mkPos 5 13)) TTo [116;111]))] [
            Node KAstTerminal [49] 72 (mkRange (mkPos 5 9) (mkPos 5 10)) [(0, AT (mkTok 72 (mkRange (mkPos 5 9) (mkPos 5 10)) TNumericLiteral [49]))] [];
            Node KAstTerminal [51] 77 (mkRange (mkPos 5 14) (mkPos 5 15)) [(0, AT (mkTok 77 (mkRange (mkPos 5 14) (mkPos 5 15)) TNumericLiteral [51]))] []];
          Node KAstBinaryOp [61] 81 (mkRange (mkPos 6 2) (mkPos 6 18)) [(4, AT (mkTok 94 (mkRange (mkPos 6 15) (mkPos 6 16)) TEquals [61]))] [
            Node KAstBinaryOp [46] 81 (mkRange (mkPos 6 2) (mkPos 6 14)) [(4, AT (mkTok 88 (mkRange (mkPos 6 9) (mkPos 6 10)) TDot [46]))] [
              Node KAstBinaryOp [46] 81 (mkRange (mkPos 6 2) (mkPos 6 9)) [(4, AT (mkTok 83 (mkRange (mkPos 6 4) (mkPos 6 5)) TDot [46]))] [
                Node KAstTerminal [111;98] 81 (mkRange (mkPos 6 2) (mkPos 6 4)) [(0, AT (mkTok 81 (mkRange (mkPos 6 2) (mkPos 6 4)) TIdentifier [111;98]))] [];
                Node KAstMethodCall [97] 84 (mkRange (mkPos 6 5) (mkPos 6 9)) [] [
                  Node KAstTerminal [66] 86 (mkRange (mkPos 6 7) (mkPos 6 8)) [(0, AT (mkTok 86 (mkRange (mkPos 6 7) (mkPos 6 8)) TIdentifier [66]))] []]];
              Node KAstArrayAccess [99] 89 (mkRange (mkPos 6 10) (mkPos 6 14)) [] [
                Node KAstTerminal [99] 89 (mkRange (mkPos 6 10) (mkPos 6 11)) [(0, AT (mkTok 89 (mkRange (mkPos 6 10) (mkPos 6 11)) TIdentifier [99]))] [];
                Node KAstTerminal [100] 91 (mkRange (mkPos 6 12) (mkPos 6 13)) [(0, AT (mkTok 91 (mkRange (mkPos 6 12) (mkPos 6 13)) TIdentifier [100]))] []]];
            Node KAstTerminal [49] 96 (mkRange (mkPos 6 17) (mkPos 6 18)) [(0, AT (mkTok 96 (mkRange (mkPos 6 17) (mkPos 6 18)) TNumericLiteral [49]))] []]]]]].

