(* Well-formedness of every parser of the grammar model (see ParserWF.v for the notion).
   [Rec n rec]: the recursive entry point [rec] (one fuel level down) is well-formed and strict on
   all inputs shorter than n -- every descent in the grammar happens after a token was consumed. *)
From GoldV Require Import Base Tokens Lexer AstKinds Tree Strings PComb Grammar ParserWF.
From Coq Require Import Lia.

Definition Rec (n : nat) {A} (rec : P A) : Prop := forall m, (m < n)%nat -> W m true rec.

Lemma Rec_mono {A} n m (rec : P A) : (m <= n)%nat -> Rec n rec -> Rec m rec.
Proof. intros H Hr k Hk. apply Hr. lia. Qed.

Lemma W_opt_t {A} n (p : P A) : W n true p -> W n false (opt p).
Proof. apply W_opt. Qed.
Lemma W_opt_f {A} n (p : P A) : W n false p -> W n false (opt p).
Proof. apply W_opt. Qed.
Lemma W_rae_t {A} n (p : P A) : W n true p -> W n false (recover_at_error p).
Proof. apply W_recover_at_error. Qed.
Lemma W_rae_f {A} n (p : P A) : W n false p -> W n false (recover_at_error p).
Proof. apply W_recover_at_error. Qed.
Lemma W_sep_list_t {A} n (p : P A) sep : W n true p -> W n false (sep_list p sep).
Proof. apply W_sep_list. Qed.
Lemma W_sep_list_f {A} n (p : P A) sep : W n false p -> W n false (sep_list p sep).
Proof. apply W_sep_list. Qed.
Lemma W_until_t {A} n (stop : P tok) (p : P A) : W n true stop -> W n true p -> W n false (until_w_ctx stop p).
Proof. apply W_until. Qed.
Lemma W_until_strict_t {A} n (stop : P tok) (p : P A) : W n true stop -> W n true p -> W n false (until_strict stop p).
Proof. apply W_until_strict. Qed.

Lemma W_tok_alt n tys : tys <> [] -> W n true (tok_alt tys).
Proof.
  intro H. unfold tok_alt. apply W_alt.
  - destruct tys; [congruence|discriminate].
  - induction tys as [|t tys IH]; simpl; constructor; [apply W_exp_token|].
    destruct tys; [constructor|]. apply IH. discriminate.
Qed.

Lemma W_panic {A} n s (site : N) : False -> W n s (fun (i : input) (c : ctx) => (@Panic A site, c)).
Proof. tauto. Qed.

Create HintDb wdb.

Ltac wrec :=
  match goal with
  | H : Rec ?n ?r |- W ?m true ?r => apply H; lia
  | H : Rec ?n ?r |- W ?m false ?r => apply W_weaken with (s := true); apply H; lia
  | H : Rec ?n ?r |- Rec ?m ?r => apply (Rec_mono n m); [lia | exact H]
  end.

Ltac wtac :=
  intros;
  lazymatch goal with
  | |- W _ true (bind _ _) =>
      first [ eapply (W_bind_strict _ false); [ solve [wtac] | intros ? ? ?; solve [wtac] ]
            | eapply (W_bind _ true); [ solve [wtac] | intros ?; solve [wtac] ] ]
  | |- W _ false (bind _ _) =>
      first [ apply W_weaken with (s := true); eapply (W_bind_strict _ false); [ solve [wtac] | intros ? ? ?; solve [wtac] ]
            | eapply (W_bind _ false); [ solve [wtac] | intros ?; solve [wtac] ] ]
  | |- W _ false (ret _) => apply W_ret
  | |- W _ _ (fail _) => apply W_fail
  | |- W _ _ (prepend _ _) => apply W_prepend; solve [wtac]
  | |- W _ false (opt _) => first [ apply W_opt_t; solve [wtac] | apply W_opt_f; solve [wtac] ]
  | |- W _ false (recover_at_error _) => first [ apply W_rae_t; solve [wtac] | apply W_rae_f; solve [wtac] ]
  | |- W _ false (sep_list _ _) => first [ apply W_sep_list_t; solve [wtac] | apply W_sep_list_f; solve [wtac] ]
  | |- W _ false (until_w_ctx _ _) => apply W_until_t; solve [wtac]
  | |- W _ false (until_strict _ _) => apply W_until_strict_t; solve [wtac]
  | |- W _ false (until_no_match _) => apply W_until_no_match; solve [wtac]
  | |- W _ false (repeat_w_ctx _) => apply W_repeat; solve [wtac]
  | |- W _ false (take_until _) => apply W_take_until
  | |- W _ false (with_ctx _) => apply W_with_ctx; intros; first [apply CacheOK_clear | apply CacheOK_add_diag; assumption]
  | |- W _ true (exp_token _) => apply W_exp_token
  | |- W _ true (exp_ident_with_value _) => apply W_exp_ident_with_value
  | |- W _ true (tok_alt _) => apply W_tok_alt; discriminate
  | |- W _ true (seq_tokens (_ :: _)) => apply W_seq_tokens
  | |- W _ true (sep_tokens _ _) => apply W_sep_tokens
  | |- W _ true (binops _ _) => apply W_binops; solve [wtac]
  | |- W _ true (memo _ _) => apply W_memo; solve [wtac]
  | |- W _ true (memo_ok_only _ _) => apply W_memo_ok_only; solve [wtac]
  | |- W _ _ (alt _) => apply W_alt; [discriminate | repeat (apply Forall_cons || apply Forall_nil); solve [wtac]]
  | |- W _ _ (match ?x with _ => _ end) => destruct x; solve [wtac]
  | |- W _ false ?p => first [ wrec | solve [eauto 2 with wdb] | apply W_weaken with (s := true); solve [wtac] | (progress unfold p); solve [wtac] ]
  | |- W _ true ?p => first [ wrec | solve [eauto 2 with wdb] ]
  | |- Rec _ _ => wrec
  end.

(* ---------- types, expressions, OQL ---------- *)
Lemma W_parse_comment n : W n true parse_comment.
Proof. intros. unfold parse_comment. wtac. Qed.
#[export] Hint Resolve W_parse_comment : wdb.

Lemma W_parse_annotations n : W n true parse_annotations.
Proof. intros. unfold parse_annotations. wtac. Qed.
#[export] Hint Resolve W_parse_annotations : wdb.

Lemma W_parse_literal_basic n : W n true parse_literal_basic.
Proof. intros. unfold parse_literal_basic. wtac. Qed.
#[export] Hint Resolve W_parse_literal_basic : wdb.

Lemma W_parse_ident_token n : W n true parse_ident_token.
Proof. intros. unfold parse_ident_token. wtac. Qed.
#[export] Hint Resolve W_parse_ident_token : wdb.

Lemma W_parse_identifier n : W n true parse_identifier.
Proof. intros. unfold parse_identifier. wtac. Qed.
#[export] Hint Resolve W_parse_identifier : wdb.

Lemma W_parse_type_basic n : W n true parse_type_basic.
Proof. intros. unfold parse_type_basic. wtac. Qed.
#[export] Hint Resolve W_parse_type_basic : wdb.

Lemma W_parse_enum_variant n : W n true parse_enum_variant.
Proof. intros. unfold parse_enum_variant. wtac. Qed.
#[export] Hint Resolve W_parse_enum_variant : wdb.

Lemma W_parse_type_sized n : W n true parse_type_sized.
Proof. intros. unfold parse_type_sized. wtac. Qed.
#[export] Hint Resolve W_parse_type_sized : wdb.

Lemma W_parse_type_enum n : W n true parse_type_enum.
Proof. intros. unfold parse_type_enum. wtac. Qed.
#[export] Hint Resolve W_parse_type_enum : wdb.

Lemma W_parse_type_composed n : W n true parse_type_composed.
Proof. intros. unfold parse_type_composed. wtac. Qed.
#[export] Hint Resolve W_parse_type_composed : wdb.

Lemma W_parse_type_reference_options n : W n true parse_type_reference_options.
Proof. intros. unfold parse_type_reference_options. wtac. Qed.
#[export] Hint Resolve W_parse_type_reference_options : wdb.

Lemma W_parse_type_reference n : W n true parse_type_reference.
Proof. intros. unfold parse_type_reference. wtac. Qed.
#[export] Hint Resolve W_parse_type_reference : wdb.

Lemma W_parse_type_range n : W n true parse_type_range.
Proof. intros. unfold parse_type_range. wtac. Qed.
#[export] Hint Resolve W_parse_type_range : wdb.

Lemma W_parse_type_set n : W n true parse_type_set.
Proof. intros. unfold parse_type_set. wtac. Qed.
#[export] Hint Resolve W_parse_type_set : wdb.

Lemma W_parse_type_pointer n : W n true parse_type_pointer.
Proof. intros. unfold parse_type_pointer. wtac. Qed.
#[export] Hint Resolve W_parse_type_pointer : wdb.

Lemma W_parse_type_array_index n : W n true parse_type_array_index.
Proof. intros. unfold parse_type_array_index. wtac. Qed.
#[export] Hint Resolve W_parse_type_array_index : wdb.

Lemma W_parse_type_array n : W n true parse_type_array.
Proof. intros. unfold parse_type_array. wtac. Qed.
#[export] Hint Resolve W_parse_type_array : wdb.

Lemma W_parse_type_instanceof n : W n true parse_type_instanceof.
Proof. intros. unfold parse_type_instanceof. wtac. Qed.
#[export] Hint Resolve W_parse_type_instanceof : wdb.

Lemma W_parse_type_record_field n rec : Rec n rec -> W n true (parse_type_record_field rec).
Proof. intros. unfold parse_type_record_field. wtac. Qed.
#[export] Hint Resolve W_parse_type_record_field : wdb.

Lemma W_parse_type_record n rec : Rec n rec -> W n true (parse_type_record rec).
Proof. intros. unfold parse_type_record. wtac. Qed.
#[export] Hint Resolve W_parse_type_record : wdb.

Lemma W_parse_parameter_declaration n rec : Rec n rec -> W n true (parse_parameter_declaration rec).
Proof. intros. unfold parse_parameter_declaration. wtac. Qed.
#[export] Hint Resolve W_parse_parameter_declaration : wdb.

Lemma W_parse_parameter_declaration_list n rec : Rec n rec -> W n false (parse_parameter_declaration_list rec).
Proof. intros. unfold parse_parameter_declaration_list. wtac. Qed.
#[export] Hint Resolve W_parse_parameter_declaration_list : wdb.

Lemma W_parse_type_procedure n rec : Rec n rec -> W n true (parse_type_procedure rec).
Proof. intros. unfold parse_type_procedure. wtac. Qed.
#[export] Hint Resolve W_parse_type_procedure : wdb.

Lemma W_parse_type_function n rec : Rec n rec -> W n true (parse_type_function rec).
Proof. intros. unfold parse_type_function. wtac. Qed.
#[export] Hint Resolve W_parse_type_function : wdb.

Lemma W_parse_type_body n rec : Rec n rec -> W n true (parse_type_body rec).
Proof. intros. unfold parse_type_body. wtac. Qed.
#[export] Hint Resolve W_parse_type_body : wdb.

Lemma W_parse_constant_declaration n : W n true parse_constant_declaration.
Proof. intros. unfold parse_constant_declaration. wtac. Qed.
#[export] Hint Resolve W_parse_constant_declaration : wdb.

Lemma W_parse_uses n : W n true parse_uses.
Proof. intros. unfold parse_uses. wtac. Qed.
#[export] Hint Resolve W_parse_uses : wdb.

Lemma W_parse_type_declaration n ptype : W n true ptype -> W n true (parse_type_declaration ptype).
Proof. intros. unfold parse_type_declaration. wtac. Qed.
#[export] Hint Resolve W_parse_type_declaration : wdb.

Lemma W_parse_local_var_decl n ptype : W n true ptype -> W n true (parse_local_var_decl ptype).
Proof. intros. unfold parse_local_var_decl. wtac. Qed.
#[export] Hint Resolve W_parse_local_var_decl : wdb.

Lemma W_parse_literal_set n rp : Rec n rp -> W n true (parse_literal_set rp).
Proof. intros. unfold parse_literal_set. wtac. Qed.
#[export] Hint Resolve W_parse_literal_set : wdb.

Lemma W_parse_literals n rp : Rec n rp -> W n true (parse_literals rp).
Proof. intros. unfold parse_literals. wtac. Qed.
#[export] Hint Resolve W_parse_literals : wdb.

Lemma W_parse_method_call n re : Rec n re -> W n true (parse_method_call re).
Proof. intros. unfold parse_method_call. wtac. Qed.
#[export] Hint Resolve W_parse_method_call : wdb.

Lemma W_parse_array_access n re : Rec n re -> W n true (parse_array_access re).
Proof. intros. unfold parse_array_access. wtac. Qed.
#[export] Hint Resolve W_parse_array_access : wdb.

Lemma W_parse_dot_op n re : Rec n re -> W n true (parse_dot_op re).
Proof. intros. unfold parse_dot_op. wtac. Qed.
#[export] Hint Resolve W_parse_dot_op : wdb.

Lemma W_parse_dot_ops n re : Rec n re -> W n true (parse_dot_ops re).
Proof. intros. unfold parse_dot_ops. wtac. Qed.
#[export] Hint Resolve W_parse_dot_ops : wdb.

Lemma W_parse_bracket_closure n re : Rec n re -> W n true (parse_bracket_closure re).
Proof. intros. unfold parse_bracket_closure. wtac. Qed.
#[export] Hint Resolve W_parse_bracket_closure : wdb.

Lemma W_parse_unary_op_pre n rp : Rec n rp -> W n true (parse_unary_op_pre rp).
Proof. intros. unfold parse_unary_op_pre. wtac. Qed.
#[export] Hint Resolve W_parse_unary_op_pre : wdb.

Lemma W_parse_unary_op_post n re : Rec n re -> W n true (parse_unary_op_post re).
Proof. intros. unfold parse_unary_op_post. wtac. Qed.
#[export] Hint Resolve W_parse_unary_op_post : wdb.

Lemma W_parse_unary_op n re rp : Rec n re -> Rec n rp -> W n true (parse_unary_op re rp).
Proof. intros. unfold parse_unary_op. wtac. Qed.
#[export] Hint Resolve W_parse_unary_op : wdb.

Lemma W_parse_primary_body n re rp : Rec n re -> Rec n rp -> W n true (parse_primary_body re rp).
Proof. intros. unfold parse_primary_body. wtac. Qed.
#[export] Hint Resolve W_parse_primary_body : wdb.

Lemma W_parse_factors n prim : W n true prim -> W n true (parse_factors prim).
Proof. intros. unfold parse_factors. wtac. Qed.
#[export] Hint Resolve W_parse_factors : wdb.

Lemma W_parse_terms n prim : W n true prim -> W n true (parse_terms prim).
Proof. intros. unfold parse_terms. wtac. Qed.
#[export] Hint Resolve W_parse_terms : wdb.

Lemma W_parse_bit_ops_1 n prim : W n true prim -> W n true (parse_bit_ops_1 prim).
Proof. intros. unfold parse_bit_ops_1. wtac. Qed.
#[export] Hint Resolve W_parse_bit_ops_1 : wdb.

Lemma W_parse_bit_ops_2 n prim : W n true prim -> W n true (parse_bit_ops_2 prim).
Proof. intros. unfold parse_bit_ops_2. wtac. Qed.
#[export] Hint Resolve W_parse_bit_ops_2 : wdb.

Lemma W_parse_shifts n prim : W n true prim -> W n true (parse_shifts prim).
Proof. intros. unfold parse_shifts. wtac. Qed.
#[export] Hint Resolve W_parse_shifts : wdb.

Lemma W_parse_compare n prim : W n true prim -> W n true (parse_compare prim).
Proof. intros. unfold parse_compare. wtac. Qed.
#[export] Hint Resolve W_parse_compare : wdb.

Lemma W_parse_logical_and n prim : W n true prim -> W n true (parse_logical_and prim).
Proof. intros. unfold parse_logical_and. wtac. Qed.
#[export] Hint Resolve W_parse_logical_and : wdb.

Lemma W_parse_logical_or n prim : W n true prim -> W n true (parse_logical_or prim).
Proof. intros. unfold parse_logical_or. wtac. Qed.
#[export] Hint Resolve W_parse_logical_or : wdb.

Lemma W_parse_expr_body n prim : W n true prim -> W n true (parse_expr_body prim).
Proof. intros. unfold parse_expr_body. wtac. Qed.
#[export] Hint Resolve W_parse_expr_body : wdb.

Lemma W_parse_asterisk n : W n true parse_asterisk.
Proof. intros. unfold parse_asterisk. wtac. Qed.
#[export] Hint Resolve W_parse_asterisk : wdb.

Lemma W_parse_top_n n : W n true parse_top_n.
Proof. intros. unfold parse_top_n. wtac. Qed.
#[export] Hint Resolve W_parse_top_n : wdb.

Lemma W_parse_oql_method_call n : W n true parse_oql_method_call.
Proof. intros. unfold parse_oql_method_call. wtac. Qed.
#[export] Hint Resolve W_parse_oql_method_call : wdb.

Lemma W_parse_select_item n pd : W n true pd -> W n true (parse_select_item pd).
Proof. intros. unfold parse_select_item. wtac. Qed.
#[export] Hint Resolve W_parse_select_item : wdb.

Lemma W_parse_join_item n pc : W n true pc -> W n true (parse_join_item pc).
Proof. intros. unfold parse_join_item. wtac. Qed.
#[export] Hint Resolve W_parse_join_item : wdb.

Lemma W_parse_from_item n pc : W n true pc -> W n true (parse_from_item pc).
Proof. intros. unfold parse_from_item. wtac. Qed.
#[export] Hint Resolve W_parse_from_item : wdb.

Lemma W_parse_where n pe : W n true pe -> W n true (parse_where pe).
Proof. intros. unfold parse_where. wtac. Qed.
#[export] Hint Resolve W_parse_where : wdb.

Lemma W_parse_order_by_item n pd : W n true pd -> W n true (parse_order_by_item pd).
Proof. intros. unfold parse_order_by_item. wtac. Qed.
#[export] Hint Resolve W_parse_order_by_item : wdb.

Lemma W_parse_order_by n pd : W n true pd -> W n true (parse_order_by pd).
Proof. intros. unfold parse_order_by. wtac. Qed.
#[export] Hint Resolve W_parse_order_by : wdb.

Lemma W_parse_using n : W n true parse_using.
Proof. intros. unfold parse_using. wtac. Qed.
#[export] Hint Resolve W_parse_using : wdb.

Lemma W_parse_oql_select n pe pd pc : W n true pe -> W n true pd -> W n true pc -> W n true (parse_oql_select pe pd pc).
Proof. intros. unfold parse_oql_select. wtac. Qed.
#[export] Hint Resolve W_parse_oql_select : wdb.

Lemma W_parse_oql_fetch n pd : W n true pd -> W n true (parse_oql_fetch pd).
Proof. intros. unfold parse_oql_fetch. wtac. Qed.
#[export] Hint Resolve W_parse_oql_fetch : wdb.

Lemma W_parse_oql_expr n pe pd pc : W n true pe -> W n true pd -> W n true pc -> W n true (parse_oql_expr pe pd pc).
Proof. intros. unfold parse_oql_expr. wtac. Qed.
#[export] Hint Resolve W_parse_oql_expr : wdb.
