(* Well-formedness of every parser of the grammar model (see ParserWF.v for the notion).
   [Rec n rec]: the recursive entry point [rec] (one fuel level down) is well-formed and strict on
   all inputs shorter than n -- every descent in the grammar happens after a token was consumed. *)
From GoldV Require Import Base Tokens Lexer AstKinds Tree Strings PComb Grammar ParserWF.
From Coq Require Import Lia.

Definition Rec (n : nat) {A} (rec : P A) : Prop := forall m, (m < n)%nat -> W m true rec.

Lemma Rec_mono {A} n m (rec : P A) : (m <= n)%nat -> Rec n rec -> Rec m rec.
Proof. intros H Hr k Hk. apply Hr. lia. Qed.

Lemma W_opt_t {A} n (p : P A) : W n true p -> W n false (opt p).
Proof. apply W_opt. Qed.
Lemma W_opt_f {A} n (p : P A) : W n false p -> W n false (opt p).
Proof. apply W_opt. Qed.
Lemma W_rae_t {A} n (p : P A) : W n true p -> W n false (recover_at_error p).
Proof. apply W_recover_at_error. Qed.
Lemma W_rae_f {A} n (p : P A) : W n false p -> W n false (recover_at_error p).
Proof. apply W_recover_at_error. Qed.
Lemma W_sep_list_t {A} n (p : P A) sep : W n true p -> W n false (sep_list p sep).
Proof. apply W_sep_list. Qed.
Lemma W_sep_list_f {A} n (p : P A) sep : W n false p -> W n false (sep_list p sep).
Proof. apply W_sep_list. Qed.
Lemma W_until_t {A} n (stop : P tok) (p : P A) : W n true stop -> W n true p -> W n false (until_w_ctx stop p).
Proof. apply W_until. Qed.
Lemma W_until_strict_t {A} n (stop : P tok) (p : P A) : W n true stop -> W n true p -> W n false (until_strict stop p).
Proof. apply W_until_strict. Qed.

Lemma W_tok_alt n tys : tys <> [] -> W n true (tok_alt tys).
Proof.
  intro H. unfold tok_alt. apply W_alt.
  - destruct tys; [congruence|discriminate].
  - induction tys as [|t tys IH]; simpl; constructor; [apply W_exp_token|].
    destruct tys; [constructor|]. apply IH. discriminate.
Qed.

Lemma W_panic {A} n s (site : N) : False -> W n s (fun (i : input) (c : ctx) => (@Panic A site, c)).
Proof. tauto. Qed.

Create HintDb wdb.

Ltac wrec :=
  match goal with
  | H : Rec ?n ?r |- W ?m true ?r => apply H; lia
  | H : Rec ?n ?r |- W ?m false ?r => apply W_weaken with (s := true); apply H; lia
  | H : Rec ?n ?r |- Rec ?m ?r => apply (Rec_mono n m); [lia | exact H]
  | H : W ?n ?s ?p |- W ?m ?s ?p => apply (W_mono n m); [lia | exact H]
  | H : W ?n true ?p |- W ?m false ?p => apply W_weaken with (s := true); apply (W_mono n m); [lia | exact H]
  end.
#[export] Hint Extern 1 (Rec _ _) => wrec : wdb.
#[export] Hint Extern 1 (W _ _ _) => wrec : wdb.

Ltac wtac :=
  intros; cbv beta;
  lazymatch goal with
  | |- W _ _ (fun _ c => (Panic _, c)) => apply W_panic; simpl in *; lia
  | |- W _ true (bind (seq_tokens ?tys) _) =>
      eapply (W_bind_strict_post _ false _ _ (fun ts => length ts = length tys));
        [ apply W_seq_tokens | apply seq_tokens_len | intros ? ? ? ?; solve [wtac] ]
  | |- W _ true (bind _ _) =>
      first [ eapply (W_bind_strict _ false); [ solve [wtac] | intros ? ? ?; solve [wtac] ]
            | eapply (W_bind _ true); [ solve [wtac] | intros ?; solve [wtac] ] ]
  | |- W _ false (bind _ _) =>
      first [ apply W_weaken with (s := true); eapply (W_bind_strict _ false); [ solve [wtac] | intros ? ? ?; solve [wtac] ]
            | eapply (W_bind _ false); [ solve [wtac] | intros ?; solve [wtac] ] ]
  | |- W _ false (ret _) => apply W_ret
  | |- W _ _ (fail _) => apply W_fail
  | |- W _ _ (prepend _ _) => apply W_prepend; solve [wtac]
  | |- W _ false (opt _) => first [ apply W_opt_t; solve [wtac] | apply W_opt_f; solve [wtac] ]
  | |- W _ false (recover_at_error _) => first [ apply W_rae_t; solve [wtac] | apply W_rae_f; solve [wtac] ]
  | |- W _ false (sep_list _ _) => first [ apply W_sep_list_t; solve [wtac] | apply W_sep_list_f; solve [wtac] ]
  | |- W _ false (until_w_ctx _ _) => apply W_until_t; solve [wtac]
  | |- W _ false (until_strict _ _) => apply W_until_strict_t; solve [wtac]
  | |- W _ false (until_no_match _) => apply W_until_no_match; solve [wtac]
  | |- W _ false (repeat_w_ctx _) => apply W_repeat; solve [wtac]
  | |- W _ false (take_until _) => apply W_take_until
  | |- W _ false (with_ctx _) => apply W_with_ctx; intros; first [apply CacheOK_clear | apply CacheOK_add_diag; assumption]
  | |- W _ true (exp_token _) => apply W_exp_token
  | |- W _ true (exp_ident_with_value _) => apply W_exp_ident_with_value
  | |- W _ true (tok_alt _) => apply W_tok_alt; discriminate
  | |- W _ true (seq_tokens (_ :: _)) => apply W_seq_tokens
  | |- W _ true (sep_tokens _ _) => apply W_sep_tokens
  | |- W _ true (binops _ _) => apply W_binops; solve [wtac]
  | |- W _ true (memo _ _) => apply W_memo; solve [wtac]
  | |- W _ true (memo_ok_only _ _) => apply W_memo_ok_only; solve [wtac]
  | |- W _ _ (alt _) => apply W_alt; [discriminate | repeat (apply Forall_cons || apply Forall_nil); solve [wtac]]
  | |- W _ _ (match ?x with _ => _ end) => destruct x; solve [wtac]
  | |- W _ false ?p => first [ wrec | solve [eauto 3 with wdb] | apply W_weaken with (s := true); solve [wtac] | (progress unfold p); solve [wtac] ]
  | |- W _ true ?p => first [ wrec | solve [eauto 3 with wdb] ]
  | |- Rec _ _ => wrec
  end.

(* ---------- types, expressions, OQL ---------- *)
Lemma W_parse_comment n : W n true parse_comment.
Proof. intros. unfold parse_comment. wtac. Qed.
#[export] Hint Resolve W_parse_comment : wdb.

Lemma W_parse_annotations n : W n true parse_annotations.
Proof. intros. unfold parse_annotations. wtac. Qed.
#[export] Hint Resolve W_parse_annotations : wdb.

Lemma W_parse_literal_basic n : W n true parse_literal_basic.
Proof. intros. unfold parse_literal_basic. wtac. Qed.
#[export] Hint Resolve W_parse_literal_basic : wdb.

Lemma W_parse_ident_token n : W n true parse_ident_token.
Proof. intros. unfold parse_ident_token. wtac. Qed.
#[export] Hint Resolve W_parse_ident_token : wdb.

Lemma W_parse_identifier n : W n true parse_identifier.
Proof. intros. unfold parse_identifier. wtac. Qed.
#[export] Hint Resolve W_parse_identifier : wdb.

Lemma W_parse_type_basic n : W n true parse_type_basic.
Proof. intros. unfold parse_type_basic. wtac. Qed.
#[export] Hint Resolve W_parse_type_basic : wdb.

Lemma W_parse_enum_variant n : W n true parse_enum_variant.
Proof. intros. unfold parse_enum_variant. wtac. Qed.
#[export] Hint Resolve W_parse_enum_variant : wdb.

Lemma W_parse_type_sized n : W n true parse_type_sized.
Proof. intros. unfold parse_type_sized. wtac. Qed.
#[export] Hint Resolve W_parse_type_sized : wdb.

Lemma W_parse_type_enum n : W n true parse_type_enum.
Proof. intros. unfold parse_type_enum. wtac. Qed.
#[export] Hint Resolve W_parse_type_enum : wdb.

Lemma W_parse_type_composed n : W n true parse_type_composed.
Proof. intros. unfold parse_type_composed. wtac. Qed.
#[export] Hint Resolve W_parse_type_composed : wdb.

Lemma W_parse_type_reference_options n : W n true parse_type_reference_options.
Proof. intros. unfold parse_type_reference_options. wtac. Qed.
#[export] Hint Resolve W_parse_type_reference_options : wdb.

Lemma W_parse_type_reference n : W n true parse_type_reference.
Proof. intros. unfold parse_type_reference. wtac. Qed.
#[export] Hint Resolve W_parse_type_reference : wdb.

Lemma W_parse_type_range n : W n true parse_type_range.
Proof. intros. unfold parse_type_range. wtac. Qed.
#[export] Hint Resolve W_parse_type_range : wdb.

Lemma W_parse_type_set n : W n true parse_type_set.
Proof. intros. unfold parse_type_set. wtac. Qed.
#[export] Hint Resolve W_parse_type_set : wdb.

Lemma W_parse_type_pointer n : W n true parse_type_pointer.
Proof. intros. unfold parse_type_pointer. wtac. Qed.
#[export] Hint Resolve W_parse_type_pointer : wdb.

Lemma W_parse_type_array_index n : W n true parse_type_array_index.
Proof. intros. unfold parse_type_array_index. wtac. Qed.
#[export] Hint Resolve W_parse_type_array_index : wdb.

Lemma W_parse_type_array n : W n true parse_type_array.
Proof. intros. unfold parse_type_array. wtac. Qed.
#[export] Hint Resolve W_parse_type_array : wdb.

Lemma W_parse_type_instanceof n : W n true parse_type_instanceof.
Proof. intros. unfold parse_type_instanceof. wtac. Qed.
#[export] Hint Resolve W_parse_type_instanceof : wdb.

Lemma W_parse_type_record_field n rec : Rec n rec -> W n true (parse_type_record_field rec).
Proof. intros. unfold parse_type_record_field. wtac. Qed.
#[export] Hint Resolve W_parse_type_record_field : wdb.

Lemma W_parse_type_record n rec : Rec n rec -> W n true (parse_type_record rec).
Proof. intros. unfold parse_type_record. wtac. Qed.
#[export] Hint Resolve W_parse_type_record : wdb.

Lemma W_parse_parameter_declaration n rec : Rec n rec -> W n true (parse_parameter_declaration rec).
Proof. intros. unfold parse_parameter_declaration. wtac. Qed.
#[export] Hint Resolve W_parse_parameter_declaration : wdb.

Lemma W_parse_parameter_declaration_list n rec : Rec n rec -> W n false (parse_parameter_declaration_list rec).
Proof. intros. unfold parse_parameter_declaration_list. wtac. Qed.
#[export] Hint Resolve W_parse_parameter_declaration_list : wdb.

Lemma W_parse_type_procedure n rec : Rec n rec -> W n true (parse_type_procedure rec).
Proof. intros. unfold parse_type_procedure. wtac. Qed.
#[export] Hint Resolve W_parse_type_procedure : wdb.

Lemma W_parse_type_function n rec : Rec n rec -> W n true (parse_type_function rec).
Proof. intros. unfold parse_type_function. wtac. Qed.
#[export] Hint Resolve W_parse_type_function : wdb.

Lemma W_parse_type_body n rec : Rec n rec -> W n true (parse_type_body rec).
Proof. intros. unfold parse_type_body. wtac. Qed.
#[export] Hint Resolve W_parse_type_body : wdb.

Lemma W_parse_constant_declaration n : W n true parse_constant_declaration.
Proof. intros. unfold parse_constant_declaration. wtac. Qed.
#[export] Hint Resolve W_parse_constant_declaration : wdb.

Lemma W_parse_uses n : W n true parse_uses.
Proof. intros. unfold parse_uses. wtac. Qed.
#[export] Hint Resolve W_parse_uses : wdb.

Lemma W_parse_type_declaration n ptype : W n true ptype -> W n true (parse_type_declaration ptype).
Proof. intros. unfold parse_type_declaration. wtac. Qed.
#[export] Hint Resolve W_parse_type_declaration : wdb.

Lemma W_parse_local_var_decl n ptype : W n true ptype -> W n true (parse_local_var_decl ptype).
Proof. intros. unfold parse_local_var_decl. wtac. Qed.
#[export] Hint Resolve W_parse_local_var_decl : wdb.

Lemma W_parse_literal_set n rp : Rec n rp -> W n true (parse_literal_set rp).
Proof. intros. unfold parse_literal_set. wtac. Qed.
#[export] Hint Resolve W_parse_literal_set : wdb.

Lemma W_parse_literals n rp : Rec n rp -> W n true (parse_literals rp).
Proof. intros. unfold parse_literals. wtac. Qed.
#[export] Hint Resolve W_parse_literals : wdb.

Lemma W_parse_method_call n re : Rec n re -> W n true (parse_method_call re).
Proof. intros. unfold parse_method_call. wtac. Qed.
#[export] Hint Resolve W_parse_method_call : wdb.

Lemma W_parse_array_access n re : Rec n re -> W n true (parse_array_access re).
Proof. intros. unfold parse_array_access. wtac. Qed.
#[export] Hint Resolve W_parse_array_access : wdb.

Lemma W_parse_dot_op n re : Rec n re -> W n true (parse_dot_op re).
Proof. intros. unfold parse_dot_op. wtac. Qed.
#[export] Hint Resolve W_parse_dot_op : wdb.

Lemma W_parse_dot_ops n re : Rec n re -> W n true (parse_dot_ops re).
Proof. intros. unfold parse_dot_ops. wtac. Qed.
#[export] Hint Resolve W_parse_dot_ops : wdb.

Lemma W_parse_bracket_closure n re : Rec n re -> W n true (parse_bracket_closure re).
Proof. intros. unfold parse_bracket_closure. wtac. Qed.
#[export] Hint Resolve W_parse_bracket_closure : wdb.

Lemma W_parse_unary_op_pre n rp : Rec n rp -> W n true (parse_unary_op_pre rp).
Proof. intros. unfold parse_unary_op_pre. wtac. Qed.
#[export] Hint Resolve W_parse_unary_op_pre : wdb.

Lemma W_parse_unary_op_post n re : Rec n re -> W n true (parse_unary_op_post re).
Proof. intros. unfold parse_unary_op_post. wtac. Qed.
#[export] Hint Resolve W_parse_unary_op_post : wdb.

Lemma W_parse_unary_op n re rp : Rec n re -> Rec n rp -> W n true (parse_unary_op re rp).
Proof. intros. unfold parse_unary_op. wtac. Qed.
#[export] Hint Resolve W_parse_unary_op : wdb.

Lemma W_parse_primary_body n re rp : Rec n re -> Rec n rp -> W n true (parse_primary_body re rp).
Proof. intros. unfold parse_primary_body. wtac. Qed.
#[export] Hint Resolve W_parse_primary_body : wdb.

Lemma W_parse_factors n prim : W n true prim -> W n true (parse_factors prim).
Proof. intros. unfold parse_factors. wtac. Qed.
#[export] Hint Resolve W_parse_factors : wdb.

Lemma W_parse_terms n prim : W n true prim -> W n true (parse_terms prim).
Proof. intros. unfold parse_terms. wtac. Qed.
#[export] Hint Resolve W_parse_terms : wdb.

Lemma W_parse_bit_ops_1 n prim : W n true prim -> W n true (parse_bit_ops_1 prim).
Proof. intros. unfold parse_bit_ops_1. wtac. Qed.
#[export] Hint Resolve W_parse_bit_ops_1 : wdb.

Lemma W_parse_bit_ops_2 n prim : W n true prim -> W n true (parse_bit_ops_2 prim).
Proof. intros. unfold parse_bit_ops_2. wtac. Qed.
#[export] Hint Resolve W_parse_bit_ops_2 : wdb.

Lemma W_parse_shifts n prim : W n true prim -> W n true (parse_shifts prim).
Proof. intros. unfold parse_shifts. wtac. Qed.
#[export] Hint Resolve W_parse_shifts : wdb.

Lemma W_parse_compare n prim : W n true prim -> W n true (parse_compare prim).
Proof. intros. unfold parse_compare. wtac. Qed.
#[export] Hint Resolve W_parse_compare : wdb.

Lemma W_parse_logical_and n prim : W n true prim -> W n true (parse_logical_and prim).
Proof. intros. unfold parse_logical_and. wtac. Qed.
#[export] Hint Resolve W_parse_logical_and : wdb.

Lemma W_parse_logical_or n prim : W n true prim -> W n true (parse_logical_or prim).
Proof. intros. unfold parse_logical_or. wtac. Qed.
#[export] Hint Resolve W_parse_logical_or : wdb.

Lemma W_parse_expr_body n prim : W n true prim -> W n true (parse_expr_body prim).
Proof. intros. unfold parse_expr_body. wtac. Qed.
#[export] Hint Resolve W_parse_expr_body : wdb.

Lemma W_parse_asterisk n : W n true parse_asterisk.
Proof. intros. unfold parse_asterisk. wtac. Qed.
#[export] Hint Resolve W_parse_asterisk : wdb.

Lemma W_parse_top_n n : W n true parse_top_n.
Proof. intros. unfold parse_top_n. wtac. Qed.
#[export] Hint Resolve W_parse_top_n : wdb.

Lemma W_parse_oql_method_call n : W n true parse_oql_method_call.
Proof. intros. unfold parse_oql_method_call. wtac. Qed.
#[export] Hint Resolve W_parse_oql_method_call : wdb.

Lemma W_parse_select_item n pd : W n true pd -> W n true (parse_select_item pd).
Proof. intros. unfold parse_select_item. wtac. Qed.
#[export] Hint Resolve W_parse_select_item : wdb.

Lemma W_parse_join_item n pc : W n true pc -> W n true (parse_join_item pc).
Proof. intros. unfold parse_join_item. wtac. Qed.
#[export] Hint Resolve W_parse_join_item : wdb.

Lemma W_parse_from_item n pc : W n true pc -> W n true (parse_from_item pc).
Proof. intros. unfold parse_from_item. wtac. Qed.
#[export] Hint Resolve W_parse_from_item : wdb.

Lemma W_parse_where n pe : W n true pe -> W n true (parse_where pe).
Proof. intros. unfold parse_where. wtac. Qed.
#[export] Hint Resolve W_parse_where : wdb.

Lemma W_parse_order_by_item n pd : W n true pd -> W n true (parse_order_by_item pd).
Proof. intros. unfold parse_order_by_item. wtac. Qed.
#[export] Hint Resolve W_parse_order_by_item : wdb.

Lemma W_parse_order_by n pd : W n true pd -> W n true (parse_order_by pd).
Proof. intros. unfold parse_order_by. wtac. Qed.
#[export] Hint Resolve W_parse_order_by : wdb.

Lemma W_parse_using n : W n true parse_using.
Proof. intros. unfold parse_using. wtac. Qed.
#[export] Hint Resolve W_parse_using : wdb.

Lemma W_parse_oql_select n pe pd pc : W n true pe -> W n true pd -> W n true pc -> W n true (parse_oql_select pe pd pc).
Proof. intros. unfold parse_oql_select. wtac. Qed.
#[export] Hint Resolve W_parse_oql_select : wdb.

Lemma W_parse_oql_fetch n pd : W n true pd -> W n true (parse_oql_fetch pd).
Proof. intros. unfold parse_oql_fetch. wtac. Qed.
#[export] Hint Resolve W_parse_oql_fetch : wdb.

Lemma W_parse_oql_expr n pe pd pc : W n true pe -> W n true pd -> W n true pc -> W n true (parse_oql_expr pe pd pc).
Proof. intros. unfold parse_oql_expr. wtac. Qed.
#[export] Hint Resolve W_parse_oql_expr : wdb.

(* ---------- statements ---------- *)
Lemma W_parse_assignment n pd pe : W n true pd -> W n true pe -> W n true (parse_assignment pe pd).
Proof. intros. unfold parse_assignment. wtac. Qed.
#[export] Hint Resolve W_parse_assignment : wdb.

Lemma W_if_loop n pe rs : W n true pe -> W n true rs -> forall fuel it cur done i c,
  CacheOK c -> (length i <= n)%nat -> (length i < fuel)%nat ->
  res_ok false (length i) (fst (if_loop pe rs fuel it cur done i c)) /\
  CacheOK (snd (if_loop pe rs fuel it cur done i c)).
Proof.
  intros Hpe Hrs. induction fuel as [|f IH]; intros it cur done i c Hc Hi Hf; [lia|].
  cbn [if_loop]. destruct i as [|t0 i']; [cbn [fst snd res_ok length]; auto|].
  assert (W n true (tok_alt [TElseIf; TElse; TEndIf; TEnd])) as Hstop by (apply W_tok_alt; discriminate).
  destruct (W_until n _ _ Hstop Hrs (t0 :: i') c Hc Hi) as [U1 U2].
  pose proof (until_w_ctx_post n _ _ Hstop Hrs (t0 :: i') c Hc Hi) as U3.
  destruct (until_w_ctx (tok_alt [TElseIf; TElse; TEndIf; TEnd]) rs (t0 :: i') c) as [[r [nodes endt]|e m|s|] c1];
    cbn [fst snd res_ok until_post] in *; auto; try tauto.
  destruct endt as [t|].
  - destruct (tt_eqb (tty t) TEndIf || tt_eqb (tty t) TEnd); [cbn [fst snd res_ok]; auto|].
    destruct (tt_eqb (tty t) TElseIf).
    + destruct (Hpe r c1 U2) as [E1 E2]; [lia|].
      destruct (pe r c1) as [[r2 cond|e m|s|] c2]; cbn [fst snd res_ok] in *; auto; try tauto.
      * destruct (IH it (mkCB (traw t) (trange t) (Some cond) [])
                     (done ++ [cb_update (mkCB (cb_raw cur) (cb_range cur) (cb_cond cur) (cb_stmts cur ++ nodes))]) r2 c2 E2)
          as [H5 H6]; try (cbn [length] in *; lia).
        split; [|exact H6].
        destruct (if_loop pe rs f it _ _ r2 c2) as [[r3 a3|e3 m3|s3|] c3]; cbn [fst snd res_ok length] in *; auto; lia.
      * split; [lia|auto].
    + destruct (tt_eqb (tty t) TElse); [|cbn [fst snd res_ok]; split; [lia|auto]].
      destruct (IH it (mkCB (traw t) (trange t) None [])
                   (done ++ [cb_update (mkCB (cb_raw cur) (cb_range cur) (cb_cond cur) (cb_stmts cur ++ nodes))]) r c1 U2)
        as [H5 H6]; try (cbn [length] in *; lia).
      split; [|exact H6].
      destruct (if_loop pe rs f it _ _ r c1) as [[r3 a3|e3 m3|s3|] c3]; cbn [fst snd res_ok length] in *; auto; lia.
  - subst r.
    destruct (IH it (mkCB (cb_raw cur) (cb_range cur) (cb_cond cur) (cb_stmts cur ++ nodes)) done []
                 (add_diag (mkDiag (trange it) S_no_end_token_found) c1) (CacheOK_add_diag _ _ U2))
      as [H5 H6]; try (cbn [length] in *; lia).
    split; [|exact H6].
    destruct (if_loop pe rs f it _ _ [] _) as [[r3 a3|e3 m3|s3|] c3]; cbn [fst snd res_ok length] in *; auto; lia.
Qed.

Lemma W_if_loop_entry n pe rs it first : W n true pe -> W n true rs ->
  W n false (fun i c => if_loop pe rs (S (S (length i))) it first [] i c).
Proof. intros Hpe Hrs i c Hc Hi. apply (W_if_loop n pe rs Hpe Hrs); auto. Qed.
#[export] Hint Resolve W_if_loop_entry : wdb.

Lemma W_parse_if_block n pe rs : W n true pe -> Rec n rs -> W n true (parse_if_block pe rs).
Proof.
  intros Hpe Hrs. unfold parse_if_block.
  eapply (W_bind_strict _ false); [wtac|]. intros it m Hm.
  eapply (W_bind _ false); [wtac|]. intros cond.
  eapply (W_bind _ false).
  - apply W_if_loop_entry; wtac.
  - intros [[cur done] endt]. wtac.
Qed.
#[export] Hint Resolve W_parse_if_block : wdb.

Lemma W_parse_to_op n : W n true parse_to_op.
Proof. intros. unfold parse_to_op. wtac. Qed.
#[export] Hint Resolve W_parse_to_op : wdb.

Lemma W_parse_separated_values n : W n false parse_separated_values.
Proof. intros. unfold parse_separated_values. wtac. Qed.
#[export] Hint Resolve W_parse_separated_values : wdb.

Lemma W_parse_when_expr n : W n false parse_when_expr.
Proof. intros. unfold parse_when_expr. wtac. Qed.
#[export] Hint Resolve W_parse_when_expr : wdb.

Lemma W_parse_when_block n rs : Rec n rs -> W n true (parse_when_block rs).
Proof. intros. unfold parse_when_block. wtac. Qed.
#[export] Hint Resolve W_parse_when_block : wdb.

Lemma W_parse_switch_else_block n rs : W n true rs -> W n false (parse_switch_else_block rs).
Proof. intros. unfold parse_switch_else_block. wtac. Qed.
#[export] Hint Resolve W_parse_switch_else_block : wdb.

Lemma W_parse_switch_block n pe rs : W n true pe -> Rec n rs -> W n true (parse_switch_block pe rs).
Proof. intros. unfold parse_switch_block. wtac. Qed.
#[export] Hint Resolve W_parse_switch_block : wdb.

Lemma W_parse_for_block n pe rs : W n true pe -> Rec n rs -> W n true (parse_for_block pe rs).
Proof. intros. unfold parse_for_block. wtac. Qed.
#[export] Hint Resolve W_parse_for_block : wdb.

Lemma W_parse_foreach_block n pe pd pc rs : W n true pe -> W n true pd -> W n true pc -> Rec n rs -> W n true (parse_foreach_block pe pd pc rs).
Proof. intros. unfold parse_foreach_block. wtac. Qed.
#[export] Hint Resolve W_parse_foreach_block : wdb.

Lemma W_parse_while_block n pe rs : W n true pe -> Rec n rs -> W n true (parse_while_block pe rs).
Proof. intros. unfold parse_while_block. wtac. Qed.
#[export] Hint Resolve W_parse_while_block : wdb.

Lemma W_parse_loop_block n rs : Rec n rs -> W n true (parse_loop_block rs).
Proof. intros. unfold parse_loop_block. wtac. Qed.
#[export] Hint Resolve W_parse_loop_block : wdb.

Lemma W_parse_repeat_block n pe rs : W n true pe -> Rec n rs -> W n true (parse_repeat_block pe rs).
Proof. intros. unfold parse_repeat_block. wtac. Qed.
#[export] Hint Resolve W_parse_repeat_block : wdb.

Lemma W_parse_return_statement n pe : W n true pe -> W n true (parse_return_statement pe).
Proof. intros. unfold parse_return_statement. wtac. Qed.
#[export] Hint Resolve W_parse_return_statement : wdb.

Lemma W_parse_control_statements n pe : W n true pe -> W n true (parse_control_statements pe).
Proof. intros. unfold parse_control_statements. wtac. Qed.
#[export] Hint Resolve W_parse_control_statements : wdb.

Lemma W_try_blocks n ps : Forall (W n true) ps -> forall (best : option (input * str)) i c, CacheOK c -> (length i <= n)%nat ->
  match best with Some (e, _) => (length e <= length i)%nat | None => True end ->
  CacheOK (snd (try_blocks ps best i c)) /\
  match fst (try_blocks ps best i c) with
  | Ok r (Some _, _) => (length r < length i)%nat
  | Ok r (None, b) => r = i /\ match b with Some (e, _) => (length e <= length i)%nat | None => True end
  | _ => False
  end.
Proof.
  induction 1 as [|p ps Hp Hps IH]; intros best i c Hc Hi Hb; cbn [try_blocks fst snd]; [auto|].
  destruct (Hp i c Hc Hi) as [H1 H2].
  destruct (p i c) as [[r a|e m|s|] c1]; cbn [fst snd res_ok] in *; auto; try tauto.
  apply IH; auto.
  destruct best as [[be bm]|]; [destruct (ilen e <? ilen be)|]; auto.
Qed.

Definition stmt_body_shape (ps qs : list (P node)) : P node :=
  fun i c =>
    match try_blocks ps None i c with
    | (Ok r (Some n, _), c1) => (Ok r n, c1)
    | (Ok _ (None, best), c1) =>
        match alt qs i c1 with
        | (Err e m, c2) =>
            match best with
            | Some (be, bm) => if ilen e <? ilen be then (Err e m, c2) else (Err be bm, c2)
            | None => (Err e m, c2)
            end
        | r => r
        end
    | (Err e m, c1) => (Err e m, c1)
    | (Panic s, c1) => (Panic s, c1)
    | (NoFuel, c1) => (NoFuel, c1)
    end.

Lemma W_stmt_body_shape n ps qs : Forall (W n true) ps -> W n true (alt qs) -> W n true (stmt_body_shape ps qs).
Proof.
  intros Hps Ha i c Hc Hi. unfold stmt_body_shape.
  destruct (W_try_blocks n ps Hps None i c Hc Hi I) as [T1 T2].
  destruct (try_blocks ps None i c) as [[r [[nd|] best]|e m|s|] c1]; cbn [fst snd res_ok] in *; try tauto.
  destruct T2 as [-> Hb].
  destruct (Ha i c1 T1 Hi) as [A1 A2].
  destruct (alt qs i c1) as [[r2 a2|e2 m2|s2|] c2]; cbn [fst snd res_ok] in *; try tauto.
  destruct best as [[be bm]|]; [destruct (ilen e2 <? ilen be)|]; cbn [fst snd res_ok]; auto.
Qed.

Lemma W_parse_statement_body n pt pe pd pc rs :
  W n true pt -> W n true pe -> W n true pd -> W n true pc -> Rec n rs ->
  W n true (parse_statement_body pt pe pd pc rs).
Proof.
  intros Hpt Hpe Hpd Hpc Hrs.
  change (parse_statement_body pt pe pd pc rs) with
    (stmt_body_shape
       [parse_if_block pe rs; parse_for_block pe rs; parse_foreach_block pe pd pc rs; parse_while_block pe rs;
        parse_loop_block rs; parse_switch_block pe rs; parse_repeat_block pe rs]
       [parse_comment; parse_uses; parse_constant_declaration; parse_type_declaration pt;
        parse_local_var_decl pt; parse_control_statements pe; parse_oql_expr pe pd pc;
        parse_assignment pe pd; pe]).
  apply W_stmt_body_shape.
  - repeat (apply Forall_cons || apply Forall_nil); wtac.
  - wtac.
Qed.
#[export] Hint Resolve W_parse_statement_body : wdb.

(* ---------- the knot ---------- *)
Theorem gram_W : forall f n, (n < f)%nat ->
  W n true (g_type (gram f)) /\ W n true (g_expr (gram f)) /\
  W n true (g_primary (gram f)) /\ W n true (g_stmt (gram f)).
Proof.
  induction f as [|f IH]; intros n Hn; [lia|].
  assert (Rec n (g_type (gram f)) /\ Rec n (g_expr (gram f)) /\ Rec n (g_primary (gram f)) /\ Rec n (g_stmt (gram f)))
    as (Rt & Re & Rp & Rs).
  { unfold Rec; refine (conj _ (conj _ (conj _ _))); intros k Hk; destruct (IH k ltac:(lia)) as (A & B & C & D); assumption. }
  cbn [gram g_type g_expr g_primary g_stmt].
  assert (W n true (parse_type_body (g_type (gram f)))) as Wt by (apply W_parse_type_body; exact Rt).
  assert (W n true (parse_primary_body (g_expr (gram f)) (g_primary (gram f)))) as Wp
    by (apply W_parse_primary_body; assumption).
  assert (W n true (parse_expr_body (parse_primary_body (g_expr (gram f)) (g_primary (gram f))))) as We
    by (apply W_parse_expr_body; exact Wp).
  refine (conj Wt (conj We (conj Wp _))).
  apply W_parse_statement_body; auto.
  - apply W_parse_dot_ops; exact Re.
  - apply W_parse_compare; exact Wp.
Qed.

(* ---------- methods, fields, top level ---------- *)
Lemma W_parse_member_modifier_tokens n : W n true parse_member_modifier_tokens.
Proof. unfold parse_member_modifier_tokens. wtac. Qed.
#[export] Hint Resolve W_parse_member_modifier_tokens : wdb.

Lemma W_parse_member_modifiers n : W n false parse_member_modifiers.
Proof.
  intros i c Hc Hi. unfold parse_member_modifiers.
  assert (W n false (until_no_match parse_member_modifier_tokens)) as Hu by wtac.
  destruct (Hu i c Hc Hi) as [U1 U2].
  destruct (until_no_match parse_member_modifier_tokens i c) as [[r ts|e m|s|] c1]; cbn [fst snd res_ok] in *; try tauto.
  destruct ts; cbn [fst snd res_ok]; auto.
Qed.
#[export] Hint Resolve W_parse_member_modifiers : wdb.

Lemma W_parse_method_external n : W n true parse_method_external.
Proof. unfold parse_method_external. wtac. Qed.
#[export] Hint Resolve W_parse_method_external : wdb.

Lemma W_parse_method_modifiers n : W n false parse_method_modifiers.
Proof.
  intros i c Hc Hi. unfold parse_method_modifiers.
  match goal with |- context [until_no_match ?p i c] =>
    assert (W n false (until_no_match p)) as Hu by wtac;
    destruct (Hu i c Hc Hi) as [U1 U2];
    destruct (until_no_match p i c) as [[r ts|e m|s|] c1]
  end; cbn [fst snd res_ok] in *; try tauto.
  destruct ts; cbn [fst snd res_ok]; auto.
Qed.
#[export] Hint Resolve W_parse_method_modifiers : wdb.

Section TopWF.
  Variable n : nat.
  Variable g : G.
  Hypothesis Ht : W n true (g_type g).
  Hypothesis He : W n true (g_expr g).
  Hypothesis Hs : W n true (g_stmt g).

  Lemma Rec_type : Rec n (g_type g).
  Proof. intros m Hm. apply (W_mono n m); [lia|exact Ht]. Qed.

  Lemma W_parse_global_variable_declaration : W n true (parse_global_variable_declaration g).
  Proof. unfold parse_global_variable_declaration. wtac. Qed.

  Lemma W_parse_method_name_uievent : W n true parse_method_name_uievent.
  Proof. unfold parse_method_name_uievent. wtac. Qed.

  Lemma W_parse_method_name : W n true parse_method_name.
  Proof.
    unfold parse_method_name. apply W_alt; [discriminate|].
    apply Forall_cons; [apply W_parse_method_name_uievent|apply Forall_cons; [wtac|apply Forall_nil]].
  Qed.

  Lemma W_parse_method_body body : (length body <= n)%nat -> W n false (parse_method_body g body).
  Proof.
    intro Hb. unfold parse_method_body. destruct body as [|first rest]; [wtac|].
    eapply (W_on_slice n n false); [exact Hb| |].
    - eapply (W_bind _ false); [wtac|]. intros _. eapply (W_bind _ false); [apply W_repeat; exact Hs|].
      intros stmts. destruct stmts; wtac.
    - apply NoErr_bind; [apply NoErr_with_ctx|]. intros _. apply NoErr_bind; [apply NoErr_repeat|].
      intros stmts. destruct stmts; cbv beta iota; apply NoErr_ret.
  Qed.

  Lemma W_method_tail first eraw erange mods terms msg :
    W n false (method_tail g first eraw erange mods terms msg).
  Proof.
    unfold method_tail. destruct (has_method_body mods); [|wtac].
    eapply (W_bind_postN n false _ _ (fun a => (length (fst a) <= n)%nat)); [wtac|apply take_until_body_len|].
    intros [body endt] Hlen. cbn [fst] in Hlen.
    eapply (W_bind _ false); [apply W_parse_method_body; exact Hlen|].
    intros b. eapply (W_bind _ false); [destruct endt; wtac|]. intros _. wtac.
  Qed.

  Lemma W_parse_procedure_declaration : W n true (parse_procedure_declaration g).
  Proof.
    unfold parse_procedure_declaration.
    eapply (W_bind_strict _ false); [wtac|]. intros first m Hm.
    eapply (W_bind _ false); [apply W_weaken with (s := true); apply (W_mono n m); [lia|apply W_parse_method_name]|].
    intros name.
    eapply (W_bind _ false); [apply W_parse_parameter_declaration_list; apply (Rec_mono n m); [lia|apply Rec_type]|].
    intros ps. eapply (W_bind _ false); [wtac|]. intros mods.
    destruct mods as [[[mr rr] fl]|]; [|destruct ps as [pn|]]; cbv beta iota;
      (eapply (W_bind _ false); [apply (W_mono n m); [lia|apply W_method_tail]|]);
      intros [[body endt] end_]; wtac.
  Qed.

  Lemma W_parse_function_declaration : W n true (parse_function_declaration g).
  Proof.
    unfold parse_function_declaration.
    eapply (W_bind_strict _ false); [wtac|]. intros first m Hm.
    eapply (W_bind _ false); [apply W_weaken with (s := true); apply (W_mono n m); [lia|apply W_parse_method_name]|].
    intros name.
    eapply (W_bind _ false); [apply W_parse_parameter_declaration_list; apply (Rec_mono n m); [lia|apply Rec_type]|].
    intros ps. eapply (W_bind _ false); [wtac|]. intros _.
    eapply (W_bind _ false); [wtac|]. intros rt.
    eapply (W_bind _ false); [wtac|]. intros mods.
    destruct mods as [[[mr rr] fl]|]; cbv beta iota;
      (eapply (W_bind _ false); [apply (W_mono n m); [lia|apply W_method_tail]|]);
      intros [[body endt] end_]; wtac.
  Qed.

  Lemma W_parse_parent_class : W n true parse_parent_class.
  Proof. unfold parse_parent_class. wtac. Qed.

  Lemma W_parse_class : W n true parse_class.
  Proof.
    unfold parse_class. eapply (W_bind _ true); [wtac|]. intros _.
    eapply (W_bind_strict _ false); [wtac|]. intros ct m Hm.
    eapply (W_bind _ false); [wtac|]. intros nt.
    eapply (W_bind _ false); [apply W_opt_t; apply (W_mono n m); [lia|apply W_parse_parent_class]|].
    intros pr. wtac.
  Qed.

  Lemma W_parse_module : W n true parse_module.
  Proof. unfold parse_module. wtac. Qed.

  Lemma W_top_blocks : W n true (alt (top_block_parsers g)).
  Proof.
    apply W_alt; [discriminate|].
    apply Forall_cons; [apply W_parse_procedure_declaration|apply Forall_cons; [apply W_parse_function_declaration|apply Forall_nil]].
  Qed.

  Lemma W_top_decls : W n true (alt (top_decl_parsers g)).
  Proof.
    apply W_alt; [discriminate|]. unfold top_decl_parsers. repeat (apply Forall_cons || apply Forall_nil).
    - wtac. - apply W_parse_class. - apply W_parse_module. - wtac.
    - apply W_parse_type_declaration; exact Ht. - wtac.
    - apply W_parse_global_variable_declaration. - wtac.
  Qed.

  (* the top-level loop: never panics, never runs out of (its own or the grammar's) fuel, never
     fails, and stops only when every token has been consumed *)
  Lemma top_loop_total whole : forall fuel acc i c,
    CacheOK c -> (length i <= n)%nat -> (length i < fuel)%nat -> (length i <= length whole)%nat ->
    exists stmts, fst (top_loop g fuel whole acc i c) = Ok [] stmts.
  Proof.
    induction fuel as [|f IH]; intros acc i c Hc Hi Hf Hw; [lia|].
    cbn [top_loop]. destruct i as [|first_tok i']; [cbn [fst]; eauto|].
    destruct (W_top_blocks (first_tok :: i') c Hc Hi) as [B1 B2].
    destruct (alt (top_block_parsers g) (first_tok :: i') c) as [[r nd|be bm|s|] c1]; cbn [fst snd res_ok length] in *; try tauto.
    - apply IH; auto; lia.
    - destruct (W_top_decls (first_tok :: i') c1 B2 Hi) as [D1 D2].
      destruct (alt (top_decl_parsers g) (first_tok :: i') c1) as [[r nd|e m|s|] c2]; cbn [fst snd res_ok length] in *; try tauto.
      + apply IH; auto; lia.
      + destruct (ilen e <? ilen be).
        * pose proof (skip_after_error_len (first_tok :: i') e ltac:(discriminate) D1) as Hsk. cbn [length] in Hsk.
          destruct e as [|t e'].
          -- destruct (rev whole) as [|lt rw] eqn:Erev.
             ++ exfalso. apply (f_equal (@length tok)) in Erev. rewrite rev_length in Erev. cbn [length] in *. lia.
             ++ apply IH; [apply CacheOK_add_diag; exact D2| | |]; lia.
          -- apply IH; [apply CacheOK_add_diag; exact D2| | |]; lia.
        * pose proof (skip_after_error_len (first_tok :: i') be ltac:(discriminate) B1) as Hsk. cbn [length] in Hsk.
          destruct be as [|t be'].
          -- destruct (rev whole) as [|lt rw] eqn:Erev.
             ++ exfalso. apply (f_equal (@length tok)) in Erev. rewrite rev_length in Erev. cbn [length] in *. lia.
             ++ apply IH; [apply CacheOK_add_diag; exact D2| | |]; lia.
          -- apply IH; [apply CacheOK_add_diag; exact D2| | |]; lia.
  Qed.
End TopWF.

(* parse_gold is total: for every token list, with or without memoisation, with any fuel above
   the number of tokens, the result is a tree, all tokens are consumed, and neither a panic site
   nor fuel exhaustion is reached *)
Theorem parse_gold_total memo fuel ts : (length ts < fuel)%nat ->
  exists root, fst (parse_gold_with memo fuel ts) = Ok [] root.
Proof.
  intro Hf. unfold parse_gold_with.
  destruct (gram_W fuel (length ts) Hf) as (Wt & We & Wp & Ws).
  destruct (top_loop_total (length ts) (gram fuel) Wt Ws ts (S (length ts)) [] ts (ctx0 memo)
              (CacheOK_ctx0 memo) (le_n _) (le_n _) (le_n _)) as [stmts Hst].
  destruct (top_loop (gram fuel) (S (length ts)) ts [] ts (ctx0 memo)) as [[r s|e m|s|] c]; cbn [fst] in *;
    try discriminate.
  inversion Hst; subst. eauto.
Qed.
