(* C17, parser layer: the top level of the grammar (methods, fields, class / module headers, the
   top-level loop) for the relation SimP, and the final theorems: two pairwise similar token lists
   parse to similar trees with IDENTICAL diagnostics, for every fuel and both memo switches. *)
From GoldV Require Import Base Tokens Keywords Lexer AstKinds Tree Strings PComb Grammar Recase RecaseBase
  RecaseComb RecaseGrammar.
From GoldV Require Import ParserWF GrammarWF.
Open Scope N_scope.

(* ---------- helper facts ---------- *)

Lemma existsb_ty_sim ty ts ts' : Forall2 tok_sim ts ts' ->
  existsb (fun t => tt_eqb (tty t) ty) ts = existsb (fun t => tt_eqb (tty t) ty) ts'.
Proof. induction 1 as [|t t' l l' Ht _ IH]; cbn [existsb]; [reflexivity|]. rewrite (ts_ty _ _ Ht), IH. reflexivity. Qed.

Lemma member_flags_sim ts ts' : Forall2 tok_sim ts ts' -> member_flags ts = member_flags ts'.
Proof.
  intro H. unfold member_flags. cbv zeta.
  rewrite (existsb_ty_sim TPrivate _ _ H), (existsb_ty_sim TProtected _ _ H),
          (existsb_ty_sim TFinal _ _ H), (existsb_ty_sim TOverride _ _ H). reflexivity.
Qed.

(* the token parse_method_external fabricates: the string literal's type and value *)
Lemma ext_tok_sim e e' s s' : tok_sim e e' -> tok_sim s s' ->
  tok_sim (mkTok (traw e) (new_range (trange e) (trange s)) (tty s) (tval s))
          (mkTok (traw e') (new_range (trange e') (trange s')) (tty s') (tval s')).
Proof.
  intros He Hs. constructor; cbn [traw trange tty tval].
  - apply (ts_raw _ _ He).
  - rewrite (ts_range _ _ He), (ts_range _ _ Hs). reflexivity.
  - apply (ts_ty _ _ Hs).
  - apply (ts_val _ _ Hs).
  - apply (ts_exact _ _ Hs).
Qed.

Ltac sval_hook ::=
  lazymatch goal with
  | |- tok_sim (mkTok _ _ _ _) (mkTok _ _ _ _) => apply ext_tok_sim; assumption
  end.

(* ---------- modifiers ---------- *)

Lemma S_parse_member_modifier_tokens : SimP tok_sim parse_member_modifier_tokens parse_member_modifier_tokens.
Proof. unfold parse_member_modifier_tokens. stac. Qed.
#[export] Hint Resolve S_parse_member_modifier_tokens : sdb.

Lemma S_parse_member_modifiers : SimP eq parse_member_modifiers parse_member_modifiers.
Proof.
  intros i i' c c' Hi Hc. unfold parse_member_modifiers.
  srunp (S_until_no_match tok_sim _ _ S_parse_member_modifier_tokens); try sfin.
  match goal with H : Forall2 tok_sim ?a ?a' |- _ => rewrite (member_flags_sim _ _ H) end.
  repeat dmatch; (split; cbn [fst snd]; [constructor; [assumption|seq]|assumption]).
Qed.
#[export] Hint Resolve S_parse_member_modifiers : sdb.

Lemma S_parse_method_external : SimP tok_sim parse_method_external parse_method_external.
Proof. unfold parse_method_external. stac. Qed.
#[export] Hint Resolve S_parse_method_external : sdb.

Lemma S_parse_method_modifiers : SimP eq parse_method_modifiers parse_method_modifiers.
Proof.
  intros i i' c c' Hi Hc. unfold parse_method_modifiers.
  assert (SimP tok_sim (alt [parse_member_modifier_tokens; parse_method_external; exp_token TForward])
                       (alt [parse_member_modifier_tokens; parse_method_external; exp_token TForward])) as Ha by stac.
  srunp (S_until_no_match tok_sim _ _ Ha); try sfin.
  match goal with H : Forall2 tok_sim ?a ?a' |- _ =>
    rewrite (member_flags_sim _ _ H), (existsb_ty_sim TForward _ _ H), (existsb_ty_sim TStringLiteral _ _ H) end.
  repeat dmatch; (split; cbn [fst snd]; [constructor; [assumption|seq]|assumption]).
Qed.
#[export] Hint Resolve S_parse_method_modifiers : sdb.

(* ---------- headers that do not depend on the level ---------- *)

Lemma S_parse_method_name_uievent : SimP node_sim parse_method_name_uievent parse_method_name_uievent.
Proof. unfold parse_method_name_uievent. stac. Qed.
#[export] Hint Resolve S_parse_method_name_uievent : sdb.

Lemma S_parse_method_name : SimP node_sim parse_method_name parse_method_name.
Proof. unfold parse_method_name. stac. Qed.
#[export] Hint Resolve S_parse_method_name : sdb.

Lemma S_parse_parent_class : SimP (pair_rel tok_sim tok_sim) parse_parent_class parse_parent_class.
Proof. unfold parse_parent_class. stac. Qed.
#[export] Hint Resolve S_parse_parent_class : sdb.

Lemma S_parse_class : SimP node_sim parse_class parse_class.
Proof. unfold parse_class. stac. Qed.
#[export] Hint Resolve S_parse_class : sdb.

Lemma S_parse_module : SimP node_sim parse_module parse_module.
Proof. unfold parse_module. stac. Qed.
#[export] Hint Resolve S_parse_module : sdb.

(* ---------- declarations that depend on the level ---------- *)

Section Top.
  Variable g : G.
  Hypothesis Ht : SimP node_sim (g_type g) (g_type g).
  Hypothesis Hs : SimP node_sim (g_stmt g) (g_stmt g).

  Lemma S_parse_global_variable_declaration :
    SimP node_sim (parse_global_variable_declaration g) (parse_global_variable_declaration g).
  Proof. unfold parse_global_variable_declaration. stac. Qed.

  Lemma S_parse_method_body body body' : Forall2 tok_sim body body' ->
    SimP (opt_rel node_sim) (parse_method_body g body) (parse_method_body g body').
  Proof.
    intro Hb. unfold parse_method_body.
    pose proof (F2_rev _ _ _ Hb) as Hr. revert Hr. generalize (rev body) (rev body'). intros rb rb' Hr.
    pose proof Hb as Hb'. destruct Hb' as [|t t' l l' Ht0 Hl]; [apply S_ret; constructor|].
    apply S_on_slice; [assumption|]. stac.
  Qed.

  Lemma S_method_tail first first' eraw eraw' erange erange' mods terms msg :
    tok_sim first first' -> eraw = eraw' -> erange = erange' ->
    SimP (pair_rel (pair_rel (opt_rel node_sim) (opt_rel tok_sim)) eq)
         (method_tail g first eraw erange mods terms msg) (method_tail g first' eraw' erange' mods terms msg).
  Proof.
    intros Hf <- <-. unfold method_tail. pose proof S_parse_method_body as Hmb.
    destruct (has_method_body mods); stac.
  Qed.

  Ltac stac_hook ::=
    lazymatch goal with
    | |- SimP _ (method_tail _ _ _ _ _ _ _) (method_tail _ _ _ _ _ _ _) =>
        apply S_method_tail; [ sval | seq | seq ]
    end.

  Lemma S_parse_procedure_declaration :
    SimP node_sim (parse_procedure_declaration g) (parse_procedure_declaration g).
  Proof. unfold parse_procedure_declaration. stac. Qed.

  Lemma S_parse_function_declaration :
    SimP node_sim (parse_function_declaration g) (parse_function_declaration g).
  Proof. unfold parse_function_declaration. stac. Qed.

  Lemma S_top_blocks : SimP node_sim (alt (top_block_parsers g)) (alt (top_block_parsers g)).
  Proof.
    pose proof S_parse_procedure_declaration. pose proof S_parse_function_declaration.
    unfold top_block_parsers. stac.
  Qed.

  Lemma S_top_decls : SimP node_sim (alt (top_decl_parsers g)) (alt (top_decl_parsers g)).
  Proof. pose proof S_parse_global_variable_declaration. unfold top_decl_parsers. stac. Qed.

  (* ---------- the top-level loop ---------- *)

  Lemma top_last_tok_sim me me' whole whole' : inp_sim me me' -> inp_sim whole whole' ->
    opt_rel tok_sim
      (match me with t :: _ => Some t | [] => match rev whole with t :: _ => Some t | [] => None end end)
      (match me' with t :: _ => Some t | [] => match rev whole' with t :: _ => Some t | [] => None end end).
  Proof.
    intros Hm Hw. destruct Hm as [|t t' l l' Ht0 _]; [|constructor; exact Ht0].
    destruct (F2_rev _ _ _ Hw) as [|t t' l l' Ht0 _]; constructor. exact Ht0.
  Qed.

  Lemma S_top_loop : forall fuel whole whole' acc acc', inp_sim whole whole' -> Forall2 node_sim acc acc' ->
    SimP (Forall2 node_sim) (top_loop g fuel whole acc) (top_loop g fuel whole' acc').
  Proof.
    induction fuel as [|f IH]; intros whole whole' acc acc' Hw Ha i i' c c' Hi Hc; cbn [top_loop].
    - split; cbn [fst snd]; [constructor|assumption].
    - destruct Hi as [|ft ft' l l' Hft Hl].
      + split; cbn [fst snd]; [constructor; [constructor|apply F2_rev; assumption]|assumption].
      + assert (inp_sim (ft :: l) (ft' :: l')) as Hi by (constructor; assumption).
        srunp S_top_blocks; try sfin.
        * apply IH; auto.
        * srunp S_top_decls; try sfin.
          -- apply IH; auto.
          -- match goal with
             | He : inp_sim ?e ?e', Hbe : inp_sim ?be ?be' |- context [ilen ?e <? ilen ?be] =>
                 rewrite (ilen_sim _ _ He), (ilen_sim _ _ Hbe);
                 destruct (ilen e' <? ilen be'); cbv beta iota zeta;
                 [ pose proof (top_last_tok_sim _ _ _ _ He Hw) as Hlt
                 | pose proof (top_last_tok_sim _ _ _ _ Hbe Hw) as Hlt ]
             end;
             (revert Hlt;
              match goal with |- opt_rel tok_sim ?o ?o' -> _ => generalize o o'; intros o1 o2 Hlt end;
              destruct Hlt as [lt lt' Hlt|]; [|split; cbn [fst snd]; [constructor|assumption]];
              (sdiag; [unfold range_of_toks, tpos; rewrite (ts_range _ _ Hft), (ts_range _ _ Hlt); reflexivity|]);
              apply IH; auto; apply skip_after_error_sim; assumption).
  Qed.
End Top.

(* ---------- the final theorems ---------- *)

Lemma mk_root_sim l l' : Forall2 node_sim l l' -> node_sim (mk_root l) (mk_root l').
Proof. intro H. unfold mk_root. apply node_sim_mk; auto using ci_eq_refl. Qed.

Theorem parse_gold_sim : forall memo fuel ts ts', Forall2 tok_sim ts ts' ->
  res_sim node_sim (fst (parse_gold_with memo fuel ts)) (fst (parse_gold_with memo fuel ts')) /\
  cdiags (snd (parse_gold_with memo fuel ts)) = cdiags (snd (parse_gold_with memo fuel ts')).
Proof.
  intros memo fuel ts ts' H. unfold parse_gold_with.
  destruct (gram_sim fuel) as (Gt & _ & _ & Gs).
  rewrite (F2_len _ _ _ H).
  srun (S_top_loop (gram fuel) Gt Gs (S (length ts')) ts ts' [] [] H (Forall2_nil _) ts ts' (ctx0 memo) (ctx0 memo)
          H (ctx_sim_refl0 memo)); cbn [fst snd]; (split; [|apply (cs_diags _ _ C)]); constructor; auto.
  apply mk_root_sim. assumption.
Qed.

(* with the totality theorem of GrammarWF.v: both runs succeed, consume everything, and give similar roots *)
Corollary parse_gold_sim_ok : forall memo fuel ts ts', (length ts < fuel)%nat -> Forall2 tok_sim ts ts' ->
  exists rest rest' root root',
    fst (parse_gold_with memo fuel ts) = Ok rest root /\ fst (parse_gold_with memo fuel ts') = Ok rest' root' /\
    Forall2 tok_sim rest rest' /\ node_sim root root' /\
    cdiags (snd (parse_gold_with memo fuel ts)) = cdiags (snd (parse_gold_with memo fuel ts')).
Proof.
  intros memo fuel ts ts' Hf H.
  destruct (parse_gold_total memo fuel ts Hf) as [root E].
  assert (length ts' < fuel)%nat as Hf' by (rewrite <- (F2_len _ _ _ H); exact Hf).
  destruct (parse_gold_total memo fuel ts' Hf') as [root' E'].
  destruct (parse_gold_sim memo fuel ts ts' H) as [R D]. rewrite E, E' in R.
  exists [], [], root, root'. inversion R; subst. repeat split; auto.
Qed.

(* the sharper form: nothing is left over in either run *)
Corollary parse_gold_sim_total : forall memo fuel ts ts', (length ts < fuel)%nat -> Forall2 tok_sim ts ts' ->
  exists root root',
    fst (parse_gold_with memo fuel ts) = Ok [] root /\ fst (parse_gold_with memo fuel ts') = Ok [] root' /\
    node_sim root root' /\
    cdiags (snd (parse_gold_with memo fuel ts)) = cdiags (snd (parse_gold_with memo fuel ts')).
Proof.
  intros memo fuel ts ts' Hf H.
  destruct (parse_gold_sim_ok memo fuel ts ts' Hf H) as (r & r' & root & root' & E & E' & Hr & Hn & D).
  destruct (parse_gold_total memo fuel ts Hf) as [root0 E0].
  assert (length ts' < fuel)%nat as Hf' by (rewrite <- (F2_len _ _ _ H); exact Hf).
  destruct (parse_gold_total memo fuel ts' Hf') as [root0' E0'].
  rewrite E0 in E. rewrite E0' in E'. inversion E; inversion E'; subst. eauto 6.
Qed.

(* the default entry point *)
Corollary parse_gold_default_sim : forall ts ts', Forall2 tok_sim ts ts' ->
  res_sim node_sim (fst (parse_gold ts)) (fst (parse_gold ts')) /\
  cdiags (snd (parse_gold ts)) = cdiags (snd (parse_gold ts')).
Proof.
  intros ts ts' H. unfold parse_gold, default_fuel. rewrite (F2_len _ _ _ H).
  rewrite <- (F2_len _ _ _ H) at 1. rewrite (F2_len _ _ _ H). apply parse_gold_sim. exact H.
Qed.
