(* Extraction of the scoping model (C10 / C11 correspondence engine `sem`).
   Directives used: those of ExtrOcamlBasic only. *)
From Coq Require Import ExtrOcamlBasic.
From GoldV Require Import Base SymTab Scoping.
Extraction Language OCaml.
Separate Extraction Scoping.answer_query.
