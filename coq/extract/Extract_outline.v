(* Extraction of the outline model (C12).  ExtrOcamlBasic directives only. *)
From Coq Require Import ExtrOcamlBasic.
From GoldV Require Import Base Tokens Lexer AstKinds Tree Outline.
Extraction Language OCaml.
Separate Extraction Outline.outline_run.
