(* conversions between OCaml ints/strings and the extracted binary numbers *)
open BinNums
open Datatypes
type coq_N = BinNums.coq_N

let rec pos_of_int (i : int) : positive =
  if i = 1 then Coq_xH
  else if i land 1 = 0 then Coq_xO (pos_of_int (i lsr 1))
  else Coq_xI (pos_of_int (i lsr 1))
let n_of_int (i : int) : coq_N = if i = 0 then N0 else Npos (pos_of_int i)
let rec int_of_pos = function
  | Coq_xH -> 1 | Coq_xO p -> 2 * int_of_pos p | Coq_xI p -> 2 * int_of_pos p + 1
let int_of_n = function N0 -> 0 | Npos p -> int_of_pos p
let rec nat_of_int (i : int) : nat = if i = 0 then O else S (nat_of_int (i - 1))
let rec int_of_nat = function O -> 0 | S n -> 1 + int_of_nat n

(* "abc" (ASCII / raw bytes) -> list N *)
let str_of_string (s : string) : coq_N list =
  Stdlib.List.init (Stdlib.String.length s) (fun i -> n_of_int (Stdlib.Char.code (Stdlib.String.get s i)))
(* list N -> UTF-8 string *)
let string_of_str (l : coq_N list) : string =
  let b = Stdlib.Buffer.create 16 in
  Stdlib.List.iter (fun c -> Stdlib.Buffer.add_utf_8_uchar b (Uchar.of_int (int_of_n c))) l;
  Stdlib.Buffer.contents b
(* "97.98" -> list N *)
let str_of_cps (s : string) : coq_N list =
  if s = "" then [] else Stdlib.List.map (fun x -> n_of_int (int_of_string x)) (Stdlib.String.split_on_char '.' s)
let cps_of_str (l : coq_N list) : string =
  Stdlib.String.concat "." (Stdlib.List.map (fun c -> string_of_int (int_of_n c)) l)
