(* E-sched for C14, model side (engine `flags`): the forced schedule of harness/src/eng_flags.rs replayed on
   the extracted model of the annotation-flag protocol (Model/Flags.v). *)
open Datatypes
open Driver_common
open Flags

let split c s = Stdlib.String.split_on_char c s

type th = { id : string; file : int; hook : int; nth : int }

let run_case (line : string) : string =
  let line = Stdlib.String.trim line in
  match Stdlib.String.index_opt line '|' with
  | None -> "BADCASE"
  | Some k ->
    let spec = Stdlib.String.sub line 0 k in
    let rest = Stdlib.String.sub line (k + 1) (Stdlib.String.length line - k - 1) in
    let files = Stdlib.List.filter (fun s -> s <> "") (split ';' rest) in
    let stems = Stdlib.List.map (fun f -> Stdlib.List.hd (split '~' f)) files in
    let index s = let rec go i = function [] -> 1000 | x :: r -> if x = s then i else go (i + 1) r in go 0 stems in
    let deps_of_file = Stdlib.Array.of_list (Stdlib.List.map (fun f ->
        match split '~' f with
        | _ :: d :: _ -> if d = "-" then [] else Stdlib.List.map index (split '+' d)
        | _ -> []) files) in
    (match split '/' spec with
     | [ths; order; note] ->
       let ths = Stdlib.List.map (fun t -> match split ':' t with
           | [id; stem; _kind; hook; n] ->
             { id; file = index stem; hook = (match hook with "0" -> 0 | "1" -> 1 | _ -> -1); nth = int_of_string n }
           | _ -> failwith "bad thread") (split ',' ths) in
       let n = Stdlib.List.length ths in
       (* which file a Document object belongs to: objects are created in the order the model allocates them *)
       let s0 = init (Stdlib.List.map (fun t -> [nat_of_int t.file]) ths)
           (if note = "-" then [] else
              match split ':' note with
              | [stem; kd] -> [(nat_of_int (index stem), kd = "c")]
              | _ -> []) in
       let st = ref s0 in
       let deps (o : nat) : nat list =
         let oi = int_of_nat o in
         match Stdlib.List.nth_opt !st.objs oi with
         | Some ob -> let u = int_of_nat ob.ouri in
           if u < Stdlib.Array.length deps_of_file then Stdlib.List.map nat_of_int deps_of_file.(u) else []
         | None -> [] in
       let top (i : int) = match Stdlib.List.nth_opt !st.thr i with
         | Some t -> (match t.stack with f :: _ -> Some f.fph | [] -> None)
         | None -> None in
       let arrivals = Stdlib.Array.make n 0 in
       let released = Stdlib.Array.make n false in
       let parked = Stdlib.Array.make n false in
       (* one step of thread i; false when it cannot move (parked at its gate, blocked, finished) *)
       let step1 (i : int) : bool =
         let t = Stdlib.List.nth ths i in
         if parked.(i) && not released.(i) then false
         else match tstep deps !st (nat_of_int i) with
           | None -> false
           | Some s' ->
             let before = top i in
             st := s';
             let after = top i in
             let arrived = match before, after with
               | Some (PLock _), Some (PLock _) -> -1
               | _, Some (PLock _) -> 0                 (* analyze:after_cache_check, then annotate_doc *)
               | Some (PPub _), _ -> -1
               | _, Some (PPub (_, _)) -> 1             (* annotate:after_publish_tree *)
               | _ -> -1 in
             if arrived = t.hook && arrived >= 0 then begin
               arrivals.(i) <- arrivals.(i) + 1;
               if arrivals.(i) = t.nth && not released.(i) then parked.(i) <- true
             end;
             true in
       let run_thread (i : int) = let fuel = ref 10000 in while !fuel > 0 && step1 i do decr fuel done in
       Stdlib.List.iteri (fun i _ -> run_thread i) ths;
       (match nstep !st with Some s' -> st := s' | None -> ());
       Stdlib.String.iter (fun ch ->
           Stdlib.List.iteri (fun i t -> if t.id.[0] = ch then begin released.(i) <- true; run_thread i end) ths) order;
       Stdlib.Array.fill released 0 n true;
       let fuel = ref 100000 in
       let moved = ref true in
       while !moved && !fuel > 0 do
         moved := false;
         for i = 0 to n - 1 do if step1 i then (moved := true; decr fuel) done
       done;
       Stdlib.String.concat "," (Stdlib.List.mapi (fun i t ->
           let fin = match Stdlib.List.nth_opt !st.thr i with Some x -> tdone x | None -> true in
           t.id ^ "=" ^ (if fin then "ok" else "HANG")) ths)
     | _ -> "BADCASE")
