(* model-only helper of the `annot` stage (checks/c10.py): is the dumped tree of the regular shape
   (AnnotProofs.regularb, the hypothesis of C10_tables_from_tree)?  input "<tree dump>", output "1" / "0" *)
let run_case (line : string) : string =
  if line = "" || line.[0] = 'X' then "-"
  else if AnnotProofs.regularb (Tree_io.node_of_string line) then "1" else "0"
