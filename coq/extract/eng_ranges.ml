(* E-ranges, model side (C08): the same observation as harness/src/eng_ranges.rs from the Coq models
     T<tok>;...|E<err>;...|<tree dump>|D<diag>;...|O<outline>
   tok = typeidx:raw:sl:sc:el:ec   err / diag = sl:sc:el:ec
   diagnostics: the parser's in the order added, then the lexer errors (parse_content).
   Cases starting with 'P' (ProjectManager / JSON form) are implementation-only. *)
open Driver_common
open Lexer
open PComb

let show_range (r : range) : string =
  Printf.sprintf "%d:%d:%d:%d" (int_of_n r.rstart.pline) (int_of_n r.rstart.pcol)
    (int_of_n r.rend.pline) (int_of_n r.rend.pcol)

let show_tok (t : tok) : string =
  Printf.sprintf "%d:%d:%s" (int_of_n (Tokens.tt_idx t.tty)) (int_of_n t.traw) (show_range t.trange)

let run_case (line : string) : string =
  let line = Stdlib.String.trim line in
  if line <> "" && line.[0] = 'P' then "IMPL-ONLY"
  else
    let text = str_of_cps line in
    let (toks, errs) = Lexer.lex text in
    let (r, c) = Grammar.parse_gold_with true (Grammar.default_fuel toks) toks in
    match r with
    | Ok (_, root) ->
      let pd = Stdlib.List.rev_map (fun d -> show_range d.drange) c.cdiags in
      let ld = Stdlib.List.map (fun e -> show_range e.erange) errs in
      Printf.sprintf "T%s|E%s|%s|D%s|O%s"
        (Stdlib.String.concat ";" (Stdlib.List.map show_tok toks))
        (Stdlib.String.concat ";" ld)
        (Tree_io.string_of_node root)
        (Stdlib.String.concat ";" (pd @ ld))
        (match Outline.outline_run root with Some l -> Eng_outline.show_list l | None -> "MODEL-PANIC unwrap of children")
    | Err (_, _) -> "MODEL-ERR"
    | Panic s -> "PANIC model site " ^ string_of_int (int_of_n s)
    | NoFuel -> "MODEL-NOFUEL"
