From Coq Require Import ExtrOcamlBasic.
From GoldV Require Import Base Tokens Keywords Lexer AstKinds Tree PComb Grammar.
Extraction Language OCaml.
Separate Extraction Grammar.parse_gold Grammar.parse_gold_with Grammar.default_fuel PComb.cdiags PComb.cevals Lexer.lex.
