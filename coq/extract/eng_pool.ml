open Driver_common
open Pool

(* case:   <n>;<event>,<event>,...      visible events of one pool life, as logged by the harness
     S<j>      submit job j            B<w>:<j>  worker w starts job j     F<w>:<j>  job j returns on w
     D         drop begins             E         drop returned
   result: OK | BAD <index of the first event the model's monitor refuses> *)

let split2 (s : string) (c : char) : string * string =
  match Stdlib.String.index_opt s c with
  | Some k -> Stdlib.String.sub s 0 k, Stdlib.String.sub s (k + 1) (Stdlib.String.length s - k - 1)
  | None -> s, ""

let parse_ev (s : string) : vevent =
  let rest = Stdlib.String.sub s 1 (Stdlib.String.length s - 1) in
  match s.[0] with
  | 'S' -> VSubmit (n_of_int (int_of_string rest))
  | 'B' -> let w, j = split2 rest ':' in VStart (nat_of_int (int_of_string w), n_of_int (int_of_string j))
  | 'F' -> let w, j = split2 rest ':' in VFinish (nat_of_int (int_of_string w), n_of_int (int_of_string j))
  | 'D' -> VDropBegin
  | 'E' -> VDropEnd
  | _ -> failwith "bad event"

let run_case (line : string) : string =
  match Stdlib.String.index_opt line ';' with
  | None -> "BADCASE"
  | Some _ ->
    let n, evs = split2 line ';' in
    let evs = Stdlib.List.filter (fun s -> s <> "") (Stdlib.String.split_on_char ',' evs) in
    match (try Some (Stdlib.List.map parse_ev evs) with _ -> None) with
    | None -> "BADCASE"
    | Some tr ->
      (match first_bad (nat_of_int (int_of_string n)) tr with
       | None -> "OK"
       | Some i -> "BAD " ^ string_of_int (int_of_nat i))
