(* E-hiertree, model side: input = the whole line of harness/src/eng_hiertree.rs,
     "<stem cps>~<dump>|...@<l:c,...>|...#<implementation's answers>"
   output: "<l:c,...>|...#<answers>": the positions echoed, the answers in the format of eng_hiertree.rs, computed by HierTree.prepare /
   supertypes_of / subtypes_of over Forest.build on HierTree.forest_input_of_ws.
   A part whose outcome is Outside (needs machinery that is not modelled: the tables of other documents, eval
   types) is printed as '?' followed by the implementation's own answer for that part (canon = drop the '?');
   when prepare is Outside, the supertypes / subtypes are computed for the implementation's item. *)
open Driver_common
open Lexer
open DefTree
open HierTree

let split c s = Stdlib.String.split_on_char c s
let cps_or_dash (s : string) = if s = "-" then [] else str_of_cps s
let dash_of_str l = if l = [] then "-" else cps_of_str l

let show_range (r : range) : string =
  Printf.sprintf "%d:%d:%d:%d" (int_of_n r.rstart.pline) (int_of_n r.rstart.pcol)
    (int_of_n r.rend.pline) (int_of_n r.rend.pcol)

let range_of_string (s : string) : range =
  match split ':' s with
  | [a; b; c; d] -> Tree_io.mk_range (int_of_string a) (int_of_string b) (int_of_string c) (int_of_string d)
  | _ -> failwith "bad range"

let show_item (it : item) : string =
  Printf.sprintf "%s/%s/%s/%s/%s" (match it.i_kind with IClass -> "c" | IFunc -> "f" | IField -> "v")
    (dash_of_str it.i_name) (dash_of_str it.i_uri) (show_range it.i_sel) (show_range it.i_range)

let item_of_string (s : string) : item option =
  match split '/' s with
  | [k; n; st; a; b] ->
    (match k with
     | "c" | "f" | "v" ->
       Some { i_name = cps_or_dash n; i_kind = (if k = "c" then IClass else if k = "f" then IFunc else IField);
              i_uri = cps_or_dash st; i_sel = range_of_string a; i_range = range_of_string b }
     | _ -> None)
  | _ -> None

let show_res (sort : bool) (r : res) : string =
  match r with
  | RErr -> "ERR"
  | RFuel -> "MODEL-NOFUEL"
  | ROk [] -> "-"
  | ROk l ->
    let s = Stdlib.List.map show_item l in
    Stdlib.String.concat "," (if sort then Stdlib.List.sort compare s else s)

(* "P<prep>S<sup>B<sub>" -> the three parts (no part contains P, S or B) *)
let split_answer (a : string) : string * string * string =
  match Stdlib.String.index_opt a 'S', Stdlib.String.index_opt a 'B' with
  | Some i, Some j when i < j && Stdlib.String.length a > 0 ->
    (Stdlib.String.sub a 1 (i - 1), Stdlib.String.sub a (i + 1) (j - i - 1),
     Stdlib.String.sub a (j + 1) (Stdlib.String.length a - j - 1))
  | _ -> ("", "", "")

let run_case (line : string) : string =
  if line = "" || line.[0] = 'X' then ""
  else
    let h = Stdlib.String.index line '#' in
    let head = Stdlib.String.sub line 0 h in
    let impl = Stdlib.String.sub line (h + 1) (Stdlib.String.length line - h - 1) in
    match split '@' head with
    | [dumps; poss_s] ->
      let docs = Stdlib.List.map (fun d -> match split '~' d with
          | [st; dump] -> (cps_or_dash st, Tree_io.node_of_string dump)
          | _ -> failwith "bad document") (if dumps = "" then [] else split '|' dumps) in
      let poss = Stdlib.Array.of_list (split '|' poss_s) in
      let impls = Stdlib.Array.of_list (split '|' impl) in
      let tr = class_tree docs in
      let out = Stdlib.List.mapi (fun k d ->
          let ps = if k < Stdlib.Array.length poss && poss.(k) <> "" then split ',' poss.(k) else [] in
          let ia = Stdlib.Array.of_list (if k < Stdlib.Array.length impls && impls.(k) <> "" then split ';' impls.(k) else []) in
          Stdlib.String.concat ";" (Stdlib.List.mapi (fun i p ->
              let (ip, is, ib) = if i < Stdlib.Array.length ia then split_answer ia.(i) else ("", "", "") in
              let pos = match split ':' p with
                | [l; c] -> { pline = n_of_int (int_of_string l); pcol = n_of_int (int_of_string c) }
                | _ -> failwith "bad position" in
              let (pstr, one) = match prepare docs d pos with
                | Outside -> ("?" ^ ip, (if Stdlib.String.contains ip ',' then None else item_of_string ip))
                | Ans r -> (show_res false r, (match r with ROk [it] -> Some it | _ -> None)) in
              let (s, b) = match one with
                | None -> ("~", "~")
                | Some it ->
                  ((match supertypes_of docs tr it with Outside -> "?" ^ is | Ans r -> show_res true r),
                   (match subtypes_of docs tr it with Outside -> "?" ^ ib | Ans r -> show_res true r)) in
              "P" ^ pstr ^ "S" ^ s ^ "B" ^ b) ps)) docs in
      poss_s ^ "#" ^ Stdlib.String.concat "|" out
    | _ -> failwith "bad case"
