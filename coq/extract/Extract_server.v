From Coq Require Import ExtrOcamlBasic.
From GoldV Require Import Base Dispatch Server.
Extraction Language OCaml.
Separate Extraction Server.run_server Server.expected_ids.
