(* Extraction of the workspace-index model (engine `index`).  Directives: ExtrOcamlBasic only. *)
From Coq Require Import ExtrOcamlBasic.
From GoldV Require Import Base Index.
Extraction Language OCaml.
Separate Extraction Index.run.
