From Coq Require Import ExtrOcamlBasic.
From GoldV Require Import Base Cache.
Extraction Language OCaml.
Separate Extraction Cache.run_server Cache.fresh_run Cache.init Cache.fresh_answer Cache.run Cache.triggers_of Cache.known_by.
