(* Extraction for the model-only engine `reportranges` (the range hypotheses of C16_response_in_range_partial
   evaluated on dumped trees; ExtrOcamlBasic directives only). *)
From Coq Require Import ExtrOcamlBasic.
From GoldV Require Import Base Tokens Lexer AstKinds Tree UnusedVar Lints Report ReportProofs.
Extraction Language OCaml.
Separate Extraction Report.report ReportProofs.contrib ReportProofs.in_range_of.
