From Coq Require Import ExtrOcamlBasic.
From GoldV Require Import Base Tokens Keywords Lexer AstKinds Tree PComb Grammar MemoObs.
Extraction Language OCaml.
Separate Extraction MemoObs.parse_body_with MemoObs.body_fuel MemoObs.method_call_twice Grammar.parse_gold_with Grammar.default_fuel PComb.cdiags PComb.cevals Lexer.lex Tree.nkind Tree.nchildren.
