(* Extraction of the position-lookup model (C06).  ExtrOcamlBasic directives only. *)
From Coq Require Import ExtrOcamlBasic.
From GoldV Require Import Base Tokens Lexer AstKinds Tree Encase.
Extraction Language OCaml.
Separate Extraction Encase.search.
