(* E-annot, model side: input "<tree dump>" as printed by harness/src/eng_annot.rs before the '#'
   (or "X ..." when the real lexer/parser did not return: nothing to model)
   output: "F<tables>|D<tables>"   (format: see harness/src/eng_annot.rs) *)
open Driver_common
open Lexer
open Annot

let cps (l : coq_N list) : string = if l = [] then "-" else cps_of_str l

let show_range (r : range) : string =
  Printf.sprintf "%d:%d:%d:%d" (int_of_n r.rstart.pline) (int_of_n r.rstart.pcol)
    (int_of_n r.rend.pline) (int_of_n r.rend.pcol)

let show_sym (s : asym) : string =
  Printf.sprintf "%s/%d/%s/%s" (cps s.a_name) (int_of_n (Scoping.kcode s.a_kind)) (show_range s.a_sel) (show_range s.a_range)

let show_table (t : table) : string =
  Printf.sprintf "%s[%s]{%s}" (match t.t_cls with None -> "~" | Some c -> cps c)
    (Stdlib.String.concat " " (Stdlib.List.map show_sym t.t_syms))
    (Stdlib.String.concat " " (Stdlib.List.map cps t.t_uses))

let show_tables (st : astate) : string =
  "R" ^ show_table st.st_root ^ Stdlib.String.concat "" (Stdlib.List.map (fun t -> "M" ^ show_table t) st.st_done)

let run_case (line : string) : string =
  if line = "" || line.[0] = 'X' then ""
  else
    let root = Tree_io.node_of_string line in
    "F" ^ show_tables (annotate false root) ^ "|D" ^ show_tables (annotate true root)
