(* Extraction of the tree-level type hierarchy model (C13, several documents).  ExtrOcamlBasic directives only. *)
From Coq Require Import ExtrOcamlBasic.
From GoldV Require Import Base Tokens Lexer AstKinds Tree SymTab Scoping Annot DefTree Forest HierTree.
Extraction Language OCaml.
Separate Extraction HierTree.prepare HierTree.supertypes_of HierTree.subtypes_of HierTree.class_tree HierTree.forest_input_of_ws.
