(* Reader / printer for the tree interchange format (see harness/src/treedump.rs, Model/Tree.v) *)
open Driver_common
open Lexer
open Tree

let cps_or_dash (s : string) : coq_N list = if s = "-" then [] else str_of_cps s
let dash_of_str (l : coq_N list) : string = if l = [] then "-" else cps_of_str l

let tt_of_int i = match Tokens.tt_of_idx (n_of_int i) with Some t -> t | None -> failwith "bad token type index"
let ak_of_int i = match AstKinds.ak_of_idx (n_of_int i) with Some k -> k | None -> failwith "bad node kind index"

let mk_range a b c d : range =
  { rstart = { pline = n_of_int a; pcol = n_of_int b }; rend = { pline = n_of_int c; pcol = n_of_int d } }

let tok_of_string (s : string) : tok =
  match Stdlib.String.split_on_char ':' s with
  | [tt; raw; sl; sc; el; ec; v] ->
    { traw = n_of_int (int_of_string raw);
      trange = mk_range (int_of_string sl) (int_of_string sc) (int_of_string el) (int_of_string ec);
      tty = tt_of_int (int_of_string tt); tval = cps_or_dash v }
  | _ -> failwith ("bad token " ^ s)

let string_of_tok (t : tok) : string =
  let r = t.trange in
  Printf.sprintf "%d:%d:%d:%d:%d:%d:%s" (int_of_n (Tokens.tt_idx t.tty)) (int_of_n t.traw)
    (int_of_n r.rstart.pline) (int_of_n r.rstart.pcol) (int_of_n r.rend.pline) (int_of_n r.rend.pcol)
    (dash_of_str t.tval)

let aval_of_string (s : string) : aval =
  let rest = Stdlib.String.sub s 1 (Stdlib.String.length s - 1) in
  match (Stdlib.String.get s 0) with
  | 'n' -> AN (n_of_int (int_of_string rest))
  | 's' -> AS (cps_or_dash rest)
  | 't' -> AT (tok_of_string rest)
  | 'l' -> AL (if rest = "" then [] else Stdlib.List.map tok_of_string (Stdlib.String.split_on_char ',' rest))
  | _ -> failwith ("bad attr value " ^ s)

let string_of_aval = function
  | AN n -> "n" ^ string_of_int (int_of_n n)
  | AS s -> "s" ^ dash_of_str s
  | AT t -> "t" ^ string_of_tok t
  | AL l -> "l" ^ Stdlib.String.concat "," (Stdlib.List.map string_of_tok l)

(* recursive-descent reader over the dump string *)
let parse_node (s : string) (pos : int ref) : node =
  let len = Stdlib.String.length s in
  let rec word () =
    let st = !pos in
    while !pos < len && (Stdlib.String.get s !pos) <> ' ' && (Stdlib.String.get s !pos) <> ')' && (Stdlib.String.get s !pos) <> '(' do incr pos done;
    Stdlib.String.sub s st (!pos - st)
  and skip () = while !pos < len && (Stdlib.String.get s !pos) = ' ' do incr pos done
  and node () =
    if (Stdlib.String.get s !pos) <> '(' then failwith "expected (";
    incr pos;
    let kind = int_of_string (word ()) in skip ();
    let ident = word () in skip ();
    let raw = int_of_string (word ()) in skip ();
    let sl = int_of_string (word ()) in skip ();
    let sc = int_of_string (word ()) in skip ();
    let el = int_of_string (word ()) in skip ();
    let ec = int_of_string (word ()) in skip ();
    if (Stdlib.String.get s !pos) <> '{' then failwith "expected {";
    let st = !pos + 1 in
    while (Stdlib.String.get s !pos) <> '}' do incr pos done;
    let astr = Stdlib.String.sub s st (!pos - st) in
    incr pos;
    let attrs = if astr = "" then [] else
      Stdlib.List.map (fun kv ->
        let i = Stdlib.String.index kv '=' in
        (n_of_int (int_of_string (Stdlib.String.sub kv 0 i)),
         aval_of_string (Stdlib.String.sub kv (i + 1) (Stdlib.String.length kv - i - 1))))
        (Stdlib.String.split_on_char ';' astr) in
    let children = ref [] in
    skip ();
    while (Stdlib.String.get s !pos) = '(' do children := node () :: !children; skip () done;
    if (Stdlib.String.get s !pos) <> ')' then failwith "expected )";
    incr pos;
    Node (ak_of_int kind, cps_or_dash ident, n_of_int raw, mk_range sl sc el ec, attrs, Stdlib.List.rev !children)
  in node ()

let node_of_string (s : string) : node = parse_node s (ref 0)

let rec string_of_node (n : node) : string =
  match n with
  | Node (k, ident, raw, r, attrs, children) ->
    let b = Stdlib.Buffer.create 64 in
    Stdlib.Buffer.add_string b (Printf.sprintf "(%d %s %d %d %d %d %d {%s}" (int_of_n (AstKinds.ak_idx k)) (dash_of_str ident)
      (int_of_n raw) (int_of_n r.rstart.pline) (int_of_n r.rstart.pcol) (int_of_n r.rend.pline) (int_of_n r.rend.pcol)
      (Stdlib.String.concat ";" (Stdlib.List.map (fun (k, v) -> string_of_int (int_of_n k) ^ "=" ^ string_of_aval v) attrs)));
    Stdlib.List.iter (fun c -> Stdlib.Buffer.add_char b ' '; Stdlib.Buffer.add_string b (string_of_node c)) children;
    Stdlib.Buffer.add_char b ')';
    Stdlib.Buffer.contents b
