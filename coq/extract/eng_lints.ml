(* E-lints, model side: input = tree dump (Tree_io), output = sorted canonical diagnostics of two
   successive requests on a fresh document:  d;d;...|IDEM-OK   d = class:sev:sl:sc:el:ec:keycps *)
open Driver_common
open Lexer
open Lints

let class_name = function
  | RET -> "RET" | INH -> "INH" | PURGE -> "PURGE" | NPROC -> "NPROC" | NFUNC -> "NFUNC"
  | NFIELD -> "NFIELD" | NPARAM -> "NPARAM" | NLOCAL -> "NLOCAL" | NTYPE -> "NTYPE" | NCONST -> "NCONST"

let show (d : diag) : string =
  let r = d.drng in
  Printf.sprintf "%s:%d:%d:%d:%d:%d:%s" (class_name d.dcls) (int_of_n d.dsev)
    (int_of_n r.rstart.pline) (int_of_n r.rstart.pcol) (int_of_n r.rend.pline) (int_of_n r.rend.pcol)
    (Tree_io.dash_of_str d.dkey)

let canon (l : diag list) : string list = Stdlib.List.sort compare (Stdlib.List.map show l)

let run_case (line : string) : string =
  if line = "" then "NO-TREE" else
  let t = Tree_io.node_of_string line in
  let (r1, d1) = request (fresh_doc t) in
  let (r2, _) = request d1 in
  let c1 = canon r1 and c2 = canon r2 in
  if c1 = c2 then Stdlib.String.concat ";" c1 ^ "|IDEM-OK"
  else Stdlib.String.concat ";" c1 ^ "|IDEM-BAD|" ^ Stdlib.String.concat ";" c2
