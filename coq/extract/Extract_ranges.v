(* E-ranges (C08): model side uses the lexer, the parser and the outline models together *)
From Coq Require Import ExtrOcamlBasic.
From GoldV Require Import Lexer Grammar Outline.
Separate Extraction Lexer.lex Grammar.parse_gold_with Grammar.default_fuel Outline.outline_run.
