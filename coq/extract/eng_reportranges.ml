(* model-only engine `reportranges`: the two range hypotheses of C16_response_in_range_partial evaluated on a dumped
   tree, for every top-level declaration m (child of the root) that contributes at least one item:
     A(m) = every item of contrib m lies in m's range
     B(m) = no item of the response for the tree without m lies in m's range
   input  = <tree dump>[@...]
   output = <declarations with a non-empty contribution>:<of these, A holds>:<of these, A and B hold> *)
open Driver_common
open Tree

let run_case (line : string) : string =
  if line = "" then "NO-TREE" else
  let ts = match Stdlib.String.index_opt line '@' with Some i -> Stdlib.String.sub line 0 i | None -> line in
  match Tree_io.node_of_string ts with
  | Node (k, id, raw, rg, attrs, ch) ->
    let n = ref 0 and a = ref 0 and ab = ref 0 in
    Stdlib.List.iteri (fun idx m ->
      let c = ReportProofs.contrib m in
      if c <> [] then begin
        incr n;
        let ha = Stdlib.List.for_all (fun d -> ReportProofs.in_range_of m d) c in
        let rest = Stdlib.List.filteri (fun j _ -> j <> idx) ch in
        let hb = Stdlib.List.for_all (fun d -> not (ReportProofs.in_range_of m d)) (Report.report (Node (k, id, raw, rg, attrs, rest)) []) in
        if ha then incr a;
        if ha && hb then incr ab
      end) ch;
    Printf.sprintf "%d:%d:%d" !n !a !ab
