(* Extraction of the C16 lint models (ExtrOcamlBasic directives only). *)
From Coq Require Import ExtrOcamlBasic.
From GoldV Require Import Base Tokens Lexer AstKinds Tree Lints.
Extraction Language OCaml.
Separate Extraction Lints.lints Lints.lints_old Lints.request Lints.fresh_doc Lints.dclass_idx Base.upper.
