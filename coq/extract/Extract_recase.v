(* Extraction roots of the C17 model engine `recase`: the lexer, parser, outline, unused-variable and
   lint models (all extracted for their own properties already) and the boolean similarity checkers
   of Model/Recase.v.  ExtrOcamlBasic directives only. *)
From Coq Require Import ExtrOcamlBasic.
From GoldV Require Import Base Tokens Keywords Lexer AstKinds Tree PComb Grammar Outline UnusedVar Lints Recase.
Extraction Language OCaml.
Separate Extraction Lexer.lex Grammar.parse_gold_with Grammar.default_fuel PComb.cdiags Outline.outline_run UnusedVar.analyze_today Lints.request Lints.fresh_doc Recase.tok_simb Recase.node_simb Recase.decl_exactb Recase.dot_ok Recase.forall2b.
