(* Extraction of the class-tree / hierarchy model and of the lock-aware analysis model
   (engine `forest`, properties C13 and C14).  Directives: ExtrOcamlBasic only. *)
From Coq Require Import ExtrOcamlBasic.
From GoldV Require Import Base Forest Locks.
Extraction Language OCaml.
Separate Extraction Forest.build Forest.run Forest.init Forest.chunks Forest.rr_sched Forest.seq_sched Forest.all_done Forest.supertypes Forest.subtypes Forest.member_supertypes Forest.member_subtypes Forest.key_of Forest.st Locks.requests Locks.ast0 Base.upper.
