(* E-report, model side.
   input  = <tree dump>@<parser diagnostics>      parser diagnostic = sl:sc:el:ec:msgcps, joined by ';'
   output = <first response>|IDEM-OK|<checkers>   (or ...|IDEM-BAD!<second response>|<checkers>)
     response = the items of Report.request on a fresh document, IN ORDER:
                sev:srccps:tags:sl:sc:el:ec:msgcps joined by ';'   (msgcps = Report.msg_text of the item)
     checkers = alone_unused/alone_ret/alone_unpurged/alone_naming/alone_inherited, each SORTED *)
open Driver_common
open Lexer
open Report

let show (d : diag) : string =
  let r = d.d_range in
  let tags = if d.d_tags = [] then "-"
             else Stdlib.String.concat "," (Stdlib.List.map (fun t -> string_of_int (int_of_n t)) d.d_tags) in
  Printf.sprintf "%d:%s:%s:%d:%d:%d:%d:%s" (int_of_n d.d_sev) (Tree_io.dash_of_str d.d_src) tags
    (int_of_n r.rstart.pline) (int_of_n r.rstart.pcol) (int_of_n r.rend.pline) (int_of_n r.rend.pcol)
    (Tree_io.dash_of_str (msg_text d.d_msg))

let in_order (l : diag list) : string = Stdlib.String.concat ";" (Stdlib.List.map show l)
let sorted (l : diag list) : string = Stdlib.String.concat ";" (Stdlib.List.sort compare (Stdlib.List.map show l))

let pdiag_of_string (s : string) : pdiag =
  match Stdlib.String.split_on_char ':' s with
  | [sl; sc; el; ec; m] ->
    { pd_range = Tree_io.mk_range (int_of_string sl) (int_of_string sc) (int_of_string el) (int_of_string ec);
      pd_msg = Tree_io.cps_or_dash m }
  | _ -> failwith ("bad parser diagnostic " ^ s)

let run_case (line : string) : string =
  if line = "" then "NO-TREE" else
  let (ts, ps) = match Stdlib.String.index_opt line '@' with
    | Some i -> (Stdlib.String.sub line 0 i, Stdlib.String.sub line (i + 1) (Stdlib.String.length line - i - 1))
    | None -> (line, "") in
  let t = Tree_io.node_of_string ts in
  let pd = if ps = "" then [] else Stdlib.List.map pdiag_of_string (Stdlib.String.split_on_char ';' ps) in
  let (r1, d1) = request (fresh_rdoc t pd) in
  let (r2, _) = request d1 in
  let s1 = in_order r1 and s2 = in_order r2 in
  let checkers = Stdlib.String.concat "/"
      [sorted (alone_unused t); sorted (alone_ret t); sorted (alone_unpurged t); sorted (alone_naming t); sorted (alone_inherited t)] in
  s1 ^ "|" ^ (if s1 = s2 then "IDEM-OK" else "IDEM-BAD!" ^ s2) ^ "|" ^ checkers
