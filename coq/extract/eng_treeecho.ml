(* round trip of the interchange format: used to validate reader and printer *)
let run_case (line : string) : string = Tree_io.string_of_node (Tree_io.node_of_string line)
