open Driver_common
open SymTab

let parse_op (s : string) : op =
  let kind = (Stdlib.String.get s 0) in
  let rest = Stdlib.String.sub s 1 (Stdlib.String.length s - 1) in
  let j, id = match Stdlib.String.index_opt rest ':' with
    | Some k -> Stdlib.String.sub rest 0 k, Stdlib.String.sub rest (k + 1) (Stdlib.String.length rest - k - 1)
    | None -> rest, "" in
  let j = nat_of_int (int_of_string j) and id = str_of_string id in
  match kind with
  | 'I' -> Insert (j, id) | 'G' -> Get (j, id) | 'W' -> SearchWP (j, id) | 'S' -> Search (j, id)
  | 'A' -> SearchAll (j, id) | 'T' -> Iter j | 'C' -> Collect j | 'E' -> Exists (j, id)
  | _ -> failwith "bad op"

let show_obs (o : obs) : string =
  "[" ^ Stdlib.String.concat "," (Stdlib.List.map (fun ((c, i), t) ->
      let t = int_of_n t in
      (* Exists prints ||1, symbols print cls|id|tag *)
      string_of_str c ^ "|" ^ string_of_str i ^ "|" ^ string_of_int t) o) ^ "]"

let run_case (line : string) : string =
  match Stdlib.String.index_opt line ';' with
  | None -> "BADCASE"
  | Some k ->
    let n = int_of_string (Stdlib.String.sub line 0 k) in
    let ops = Stdlib.String.sub line (k + 1) (Stdlib.String.length line - k - 1) in
    let ops = Stdlib.List.filter (fun s -> s <> "") (Stdlib.String.split_on_char ',' ops) in
    let outs = run (nat_of_int n) (Stdlib.List.map parse_op ops) in
    Stdlib.String.concat ";" (Stdlib.List.map show_obs outs)
