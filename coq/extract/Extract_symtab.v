(* Extraction of the executable models for the correspondence engines.
   Directives used: those of ExtrOcamlBasic only (bool, option, unit, prod, list, sumbool ->
   OCaml natives); no Extract Constant.  N / positive / nat stay the extracted datatypes. *)
From Coq Require Import ExtrOcamlBasic.
From GoldV Require Import Base SymTab.
Extraction Language OCaml.
Separate Extraction SymTab.run.
