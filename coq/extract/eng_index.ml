(* E-index, model side.  Case and result formats: see harness/src/eng_index.rs. *)
open BinNums
open Datatypes
open Driver_common
open Index

let split_path (s : string) : coq_N list list =
  Stdlib.List.map str_of_string
    (Stdlib.List.filter (fun c -> c <> "") (Stdlib.String.split_on_char '/' s))

let show_path (p : coq_N list list) : string =
  if p = [] then "/" else Stdlib.String.concat "" (Stdlib.List.map (fun c -> "/" ^ string_of_str c) p)

(* entries: `a,b(c,d()),e`, stops at ')' or end of input *)
let rec parse_entries (s : string) (i : int ref) : fs list =
  let n = Stdlib.String.length s in
  let acc = ref [] in
  let continue = ref true in
  while !continue do
    let start = !i in
    while !i < n && s.[!i] <> ',' && s.[!i] <> '(' && s.[!i] <> ')' do incr i done;
    let name = Stdlib.String.sub s start (!i - start) in
    if !i < n && s.[!i] = '(' then begin
      incr i;
      let sub = parse_entries s i in
      if not (!i < n && s.[!i] = ')') then failwith "unbalanced tree";
      incr i;
      acc := Dir (str_of_string name, sub) :: !acc
    end else if name <> "" then acc := File (str_of_string name) :: !acc;
    if !i < n && s.[!i] = ',' then incr i else continue := false
  done;
  Stdlib.List.rev !acc

let parse_op (s : string) : op =
  let f = Stdlib.String.split_on_char ':' s in
  match f with
  | ["F"; p] -> CreateFile (split_path p)
  | ["R"] -> Reindex
  | ["C"; p; v] -> Change (split_path p, n_of_int (int_of_string v))
  | ["P"; p] -> Parse (split_path p)
  | ["S"; p] -> Save (split_path p)
  | ["X"; p] -> Close (split_path p)
  | ["L"; c] -> LookupClass (str_of_string c)
  | ["U"; p] -> LookupUri (split_path p)
  | ["N"] -> Count
  | _ -> failwith ("bad op " ^ s)

let run_case (line : string) : string =
  match Stdlib.String.split_on_char ';' line with
  | root :: tree :: ops ->
    let ops = Stdlib.List.filter (fun s -> s <> "") ops in
    let i = ref 0 in
    let entries = parse_entries tree i in
    if !i <> Stdlib.String.length tree then failwith "unbalanced tree";
    let w = { top = Dir ([], entries); ws_root = (if root = "-" then None else Some (split_path root)) } in
    let outs = run w (Stdlib.List.map parse_op ops) in
    (* identities by order of first appearance in the output *)
    let ids : (int * int) list ref = ref [] in
    let id_of (d : docinfo) : int =
      let k = int_of_n d.did in
      match Stdlib.List.assoc_opt k !ids with
      | Some v -> v
      | None -> let v = Stdlib.List.length !ids in ids := (k, v) :: !ids; v in
    let show_doc (d : docinfo) : string =
      let id = id_of d in
      Printf.sprintf "%d.%s.%d" id
        (match d.opened with Some v -> string_of_int (int_of_n v) | None -> "-")
        (match d.saved with Some _ -> 1 | None -> 0) in
    let show_obs ((a, dump) : answer * (coq_N list list * docinfo) list) : string =
      let ans = match a with
        | ANone -> ""
        | AErr -> "ERR"
        | APanic _ -> "PANIC"
        | AFuel -> "FUEL"
        | AClass None -> "-"
        | AClass (Some p) -> show_path p
        | ADoc d -> show_doc d
        | ACount n -> string_of_int (int_of_nat n) in
      let entries = Stdlib.List.map (fun (p, d) -> (show_path p, d)) dump in
      let entries = Stdlib.List.sort (fun (a, _) (b, _) -> compare a b) entries in
      let dump = Stdlib.List.map (fun (p, d) -> p ^ "=" ^ show_doc d) entries in
      ans ^ "|" ^ Stdlib.String.concat "," dump in
    (* evaluation order matters for the identity numbering: left to right *)
    let rec go = function [] -> [] | o :: r -> let x = show_obs o in x :: go r in
    Stdlib.String.concat ";" (go outs)
  | _ -> "BADCASE"
