(* case:   <workspace>;<history>[;F]
     workspace = versions of the files at start-up, ',' separated:  <vid>:<parent index | ->
     history   = events, ',' separated:
        O<p> | C<p>:<vid>:<parent | -> | S<p> | X<p> | R<k><p>   with k in y(documentSymbol) d(diagnostic)
        c(definition/completion/prepareTypeHierarchy) u/U(supertypes of a class/member item) b/B(subtypes)
   output: one item per event, '|' separated: '-' for a notification, else the predicted provenance
        E | L<p>.<vid> | D<p>.<parser vid>.<v1 vid>.<v2 vid or -> | C<p>.<vid>,... | T<p>.<vid>,... (sorted)
   with a trailing ";F" the output is followed by "#fresh=<0|1>": the property's oracle evaluated on the model;
   with a trailing ";K" by "#" and, per event, the known situations it is in: letters d(ependent) t(ree) or '-' *)
open Driver_common
open Datatypes
open Cache

let par_of (s : string) : nat option = if s = "-" then None else Some (nat_of_int (int_of_string s))
let version_of (a : string) (b : string) : version = { vid = n_of_int (int_of_string a); vpar = par_of b }

let parse_ws (s : string) : version list =
  if s = "" then [] else
  Stdlib.List.map (fun x -> match Stdlib.String.split_on_char ':' x with
      | [a; b] -> version_of a b | _ -> failwith "bad workspace item") (Stdlib.String.split_on_char ',' s)

let parse_event (s : string) : event =
  let n = Stdlib.String.length s in
  let rest k = Stdlib.String.sub s k (n - k) in
  match Stdlib.String.get s 0 with
  | 'O' -> Open (nat_of_int (int_of_string (rest 1)))
  | 'S' -> Save (nat_of_int (int_of_string (rest 1)))
  | 'X' -> Close (nat_of_int (int_of_string (rest 1)))
  | 'C' -> (match Stdlib.String.split_on_char ':' (rest 1) with
      | [p; a; b] -> Change (nat_of_int (int_of_string p), version_of a b)
      | _ -> failwith "bad change")
  | 'R' ->
    let k = match Stdlib.String.get s 1 with
      | 'y' -> KSym | 'd' -> KDiag | 'c' -> KChain
      | 'u' -> KSuper false | 'U' -> KSuper true | 'b' -> KSub false | 'B' -> KSub true
      | _ -> failwith "bad request kind" in
    Req (k, nat_of_int (int_of_string (rest 2)))
  | _ -> failwith "bad event"

let show_v (v : version) : string = string_of_int (int_of_n v.vid)
let show_pair ((p, v) : nat * version) : string = string_of_int (int_of_nat p) ^ "." ^ show_v v
let show_answer (a : answer option) : string =
  match a with
  | None -> "-"
  | Some AErr -> "E"
  | Some (ALocal (p, v)) -> "L" ^ show_pair (p, v)
  | Some (ADiag (p, a, b, c)) ->
    "D" ^ string_of_int (int_of_nat p) ^ "." ^ show_v a ^ "." ^ show_v b ^ "." ^ (match c with Some x -> show_v x | None -> "-")
  | Some (AChain c) -> "C" ^ Stdlib.String.concat "," (Stdlib.List.map show_pair c)
  | Some (ATree c) -> "T" ^ Stdlib.String.concat "," (Stdlib.List.sort compare (Stdlib.List.map show_pair c))

let run_case (line : string) : string =
  match Stdlib.String.split_on_char ';' line with
  | ws :: h :: tl ->
    let ws = parse_ws ws in
    let evs = Stdlib.List.map parse_event (Stdlib.List.filter (fun s -> s <> "") (Stdlib.String.split_on_char ',' h)) in
    let out = Stdlib.String.concat "|" (Stdlib.List.map show_answer (run_server ws evs)) in
    if tl = ["F"] then out ^ "#fresh=" ^ (if fresh_run (init ws) evs then "1" else "0")
    else if tl = ["K"] then
      out ^ "#" ^ Stdlib.String.concat "|" (Stdlib.List.map (fun (d, t) ->
          let s = (if d then "d" else "") ^ (if t then "t" else "") in
          if s = "" then "-" else s) (triggers_of ws evs))
    else out
  | _ -> failwith "bad case"
