(* Extraction of the tree-level definition / completion model (C10/C11, one document).  ExtrOcamlBasic directives only. *)
From Coq Require Import ExtrOcamlBasic.
From GoldV Require Import Base Tokens Lexer AstKinds Tree SymTab Scoping Annot DefTree.
Extraction Language OCaml.
Separate Extraction DefTree.definition DefTree.completion.
