(* Extraction of the tree-level definition / completion model on a workspace of documents (C10/C11).  ExtrOcamlBasic directives only. *)
From Coq Require Import ExtrOcamlBasic.
From GoldV Require Import Base Tokens Lexer AstKinds Tree SymTab Scoping Annot DefTree WsTree.
Extraction Language OCaml.
Separate Extraction WsTree.wdefinition WsTree.wcompletion WsTree.lineage_t.
