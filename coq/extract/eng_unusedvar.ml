(* engine `unusedvar`: input = tree dump (harness/src/treedump.rs format) produced by the real parser;
   output = the diagnostics of the extracted analyser model, canonical and sorted:
   sev:class:sl:sc:el:ec:keycps joined by ';'  (class U = unused, D = duplicate declaration) *)
open Driver_common
open Lexer
open UnusedVar

let show_diag (d : diag) : string =
  let r = d.drange in
  let cls = match int_of_n d.dclass with 0 -> "U" | 1 -> "D" | _ -> "?" in
  Printf.sprintf "%d:%s:%d:%d:%d:%d:%s" (int_of_n d.dsev) cls
    (int_of_n r.rstart.pline) (int_of_n r.rstart.pcol) (int_of_n r.rend.pline) (int_of_n r.rend.pcol)
    (Tree_io.dash_of_str d.dkey)

let run_case (line : string) : string =
  let line = Stdlib.String.trim line in
  if line = "" then "NOTREE" else
  let file = Tree_io.node_of_string line in
  let ds = Stdlib.List.map show_diag (analyze_today file) in
  Stdlib.String.concat ";" (Stdlib.List.sort compare ds)
