(* E-sem, model side: answers the ABSTRACT questions of a case with the extracted Scoping model.
   case: <files>|<queries>|<abstract workspace>|<declaration table>   (see harness/src/eng_sem.rs)
     queries   = `K,stem,line,col,<question>` joined by `;`
       question = P~C~m~name | M~C~m~item+item~name | N~C~method | G~C~kind~name | X~C~m~item+item | L~C~m
                  (m = `-`: top-level position; item = name | name! for a call)
     workspace = entities joined by `;`, entity = kind,name,parent,uses,members,methods
       kind c|m; parent name|-; uses a+b|-; members k:name:type:tag joined by + (k = c t f p u), or -
       methods name:params:locals joined by +, params/locals = name~type~tag joined by /, or -
       type = - | n<name> | r<name> (refto) | l<name> (listof)
     table     = stem:tag:sl:sc:el:ec joined by `;`  (where the declared name of (entity, tag) was rendered)
   result: one answer per query joined by `;`; links `stem:sl:sc:el:ec` joined by `,`, labels sorted and joined
   by `,`, `-` when empty. *)
open Driver_common
open Scoping

let split c s = if s = "" then [] else Stdlib.String.split_on_char c s
let list_of c s = if s = "-" then [] else split c s
let s2 = str_of_string

let parse_type (s : string) : tyref =
  if s = "-" || s = "" then TNone
  else
    let rest = s2 (Stdlib.String.sub s 1 (Stdlib.String.length s - 1)) in
    match Stdlib.String.get s 0 with
    | 'n' -> TName rest | 'r' -> TRefTo rest | 'l' -> TListOf rest | _ -> failwith "bad type"

let parse_mkind = function
  | "c" -> MConst | "t" -> MType | "f" -> MField | "p" -> MProc | "u" -> MFunc | _ -> failwith "bad member kind"

let parse_member (s : string) : member =
  match split ':' s with
  | [k; n; t; tag] -> { m_kind = parse_mkind k; m_name = s2 n; m_type = parse_type t; m_tag = n_of_int (int_of_string tag) }
  | _ -> failwith "bad member"

let parse_var (s : string) : var =
  match split '~' s with
  | [n; t; tag] -> { v_name = s2 n; v_type = parse_type t; v_tag = n_of_int (int_of_string tag) }
  | _ -> failwith "bad var"

let parse_method (s : string) : coq_method =
  match split ':' s with
  | [n; ps; ls] -> { me_name = s2 n; me_params = Stdlib.List.map parse_var (list_of '/' ps);
                     me_locals = Stdlib.List.map parse_var (list_of '/' ls) }
  | _ -> failwith "bad method"

let parse_entity (s : string) : entity =
  match split ',' s with
  | [k; n; p; us; ms; mes] ->
    { e_name = s2 n; e_kind = (if k = "m" then EModule else EClass);
      e_parent = (if p = "-" then None else Some (s2 p));
      e_uses = Stdlib.List.map s2 (list_of '+' us);
      e_members = Stdlib.List.map parse_member (list_of '+' ms);
      e_methods = Stdlib.List.map parse_method (list_of '+' mes) }
  | _ -> failwith "bad entity"

let parse_item (s : string) : item =
  let n = Stdlib.String.length s in
  if n > 0 && Stdlib.String.get s (n - 1) = '!' then ICall (s2 (Stdlib.String.sub s 0 (n - 1))) else IId (s2 s)

let opt_m (s : string) = if s = "-" then None else Some (s2 s)

let parse_question (s : string) : query =
  match split '~' s with
  | ["P"; c; m; n] -> QPlain (s2 c, opt_m m, s2 n)
  | ["M"; c; m; items; n] -> QDotted (s2 c, opt_m m, Stdlib.List.map parse_item (split '+' items), s2 n)
  | ["N"; c; mn] -> QMethodName (s2 c, s2 mn)
  | ["G"; c; _k; n] -> QMemberName (s2 c, s2 n)
  | ["X"; c; m; items] -> QCompleteDot (s2 c, opt_m m, Stdlib.List.map parse_item (split '+' items))
  | ["L"; c; m] -> QCompletePlain (s2 c, opt_m m)
  | _ -> failwith ("bad question " ^ s)

let run_case (line : string) : string =
  match Stdlib.String.split_on_char '|' line with
  | [_files; queries; ws; table] ->
    let ws = Stdlib.List.map parse_entity (split ';' ws) in
    let tbl = Stdlib.Hashtbl.create 64 in
    Stdlib.List.iter (fun d ->
        match split ':' d with
        | [stem; tag; a; b; c; e] -> Stdlib.Hashtbl.replace tbl (stem, int_of_string tag) (Stdlib.String.concat ":" [a; b; c; e])
        | _ -> failwith "bad table entry") (split ';' table);
    let show_target (k, t) =
      let stem = string_of_str k and tag = int_of_n t in
      match Stdlib.Hashtbl.find_opt tbl (stem, tag) with
      | Some r -> stem ^ ":" ^ r
      | None -> stem ^ ":?" ^ string_of_int tag in
    let show = function
      | ALinks [] | ALabels [] -> "-"
      | ALinks l -> Stdlib.String.concat "," (Stdlib.List.map show_target l)
      | ALabels l -> Stdlib.String.concat "," (Stdlib.List.sort compare (Stdlib.List.map string_of_str l)) in
    let one q =
      match Stdlib.String.split_on_char ',' q with
      | [_k; _stem; _l; _c; question] -> show (answer_query ws (parse_question question))
      | _ -> "BADQUERY" in
    Stdlib.String.concat ";" (Stdlib.List.map one (split ';' queries))
  | _ -> "BADCASE"
