open Driver_common
open Lexer
open PComb

let show_diag (d : pdiag) : string =
  let r = d.drange in
  Printf.sprintf "%d:%d:%d:%d:%s" (int_of_n r.rstart.pline) (int_of_n r.rstart.pcol)
    (int_of_n r.rend.pline) (int_of_n r.rend.pcol) (Tree_io.dash_of_str d.dmsg)

let parse_obs_with (memo : bool) (text : coq_N list) : string =
  let (toks, _errs) = Lexer.lex text in
  let (r, c) = Grammar.parse_gold_with memo (Grammar.default_fuel toks) toks in
  match r with
  | Ok (rest, root) ->
    Printf.sprintf "%d|%s|%s" (Stdlib.List.length rest) (Tree_io.string_of_node root)
      (Stdlib.String.concat ";" (Stdlib.List.rev_map show_diag c.cdiags))
  | Err (_, _) -> "MODEL-ERR"
  | Panic s -> "PANIC model site " ^ string_of_int (int_of_n s)
  | NoFuel -> "MODEL-NOFUEL"

let run_case (line : string) : string = parse_obs_with true (str_of_cps (Stdlib.String.trim line))
