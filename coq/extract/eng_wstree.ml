(* E-wstree, model side: input = the whole line of harness/src/eng_wstree.rs,
     "<dump>|<dump>|...@<stem cps>|...@<l:c,l:c,...>|...#<implementation's answers, per file, joined by '|'>"
   output: per file (joined by '|') one answer per position joined by ';', answer = D<links>C<labels>
   (format: see eng_wstree.rs).  A part whose outcome is Outside (needs the typing of an operand, or an order of
   annotation the model does not fix) is printed as '?' followed by the implementation's own answer for that part,
   so that the comparison (canon = drop the '?') skips it while the check can still count the skipped parts. *)
open Driver_common
open Lexer
open DefTree
open WsTree

let show_range (r : range) : string =
  Printf.sprintf "%d:%d:%d:%d" (int_of_n r.rstart.pline) (int_of_n r.rstart.pcol)
    (int_of_n r.rend.pline) (int_of_n r.rend.pcol)

let show_links l =
  if l = [] then "-"
  else Stdlib.String.concat "," (Stdlib.List.map (fun ((st, s), r) -> cps_of_str st ^ "/" ^ show_range s ^ "/" ^ show_range r) l)
let show_labels l =
  if l = [] then "-" else Stdlib.String.concat "," (Stdlib.List.map (fun s -> if s = [] then "~" else cps_of_str s) l)

let split_answer (a : string) : string * string =
  match Stdlib.String.index_opt a 'C' with
  | Some i -> (Stdlib.String.sub a 1 (i - 1), Stdlib.String.sub a (i + 1) (Stdlib.String.length a - i - 1))
  | None -> (a, "")

let split_bar s = Stdlib.String.split_on_char '|' s

let run_case (line : string) : string =
  if line = "" || line.[0] = 'X' || line.[0] = 'H' then ""
  else
    let h = Stdlib.String.index line '#' in
    let head = Stdlib.String.sub line 0 h in
    let impl = Stdlib.String.sub line (h + 1) (Stdlib.String.length line - h - 1) in
    match Stdlib.String.split_on_char '@' head with
    | [dumps; stems; poss] ->
      let trees = Stdlib.List.map Tree_io.node_of_string (split_bar dumps) in
      let stems = Stdlib.List.map (fun s -> if s = "" then [] else str_of_cps s) (split_bar stems) in
      let ws = Stdlib.List.combine stems trees in
      let posl = Stdlib.Array.of_list (split_bar poss) in
      let impls = Stdlib.Array.of_list (split_bar impl) in
      let per_file = Stdlib.List.mapi (fun k _ ->
        let a = nat_of_int k in
        let ps = if k < Stdlib.Array.length posl && posl.(k) <> "" then Stdlib.String.split_on_char ',' posl.(k) else [] in
        let im = Stdlib.Array.of_list (if k < Stdlib.Array.length impls && impls.(k) <> "" then Stdlib.String.split_on_char ';' impls.(k) else []) in
        let out = Stdlib.List.mapi (fun i p ->
          let (il, ic) = if i < Stdlib.Array.length im then split_answer im.(i) else ("", "") in
          let pos = match Stdlib.String.split_on_char ':' p with
            | [l; c] -> { pline = n_of_int (int_of_string l); pcol = n_of_int (int_of_string c) }
            | _ -> failwith "bad position" in
          let d = match wdefinition ws a pos with Outside -> "?" ^ il | Ans l -> show_links l in
          let c = match wcompletion ws a pos with Outside -> "?" ^ ic | Ans l -> show_labels l in
          "D" ^ d ^ "C" ^ c) ps in
        Stdlib.String.concat ";" out) ws in
      Stdlib.String.concat "|" per_file
    | _ -> failwith "bad case"
