From Coq Require Import ExtrOcamlBasic.
From GoldV Require Import Base Tokens Lexer AstKinds Tree.
Extraction Language OCaml.
Separate Extraction Tree.nkind Tree.attr_tok Tree.attr_flags AstKinds.ak_idx AstKinds.ak_of_idx Tokens.tt_of_idx Tokens.tt_idx.
