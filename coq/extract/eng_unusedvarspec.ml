(* model-only engine `unusedvarspec`: input = tree dump; output = <guard flags>|<unused_spec, sorted>|<unused_spec_ext, sorted>
   guard flags: five characters 0/1 for [WFtop; G_flat; G_dup; G_order; G_pos]
   (Proofs/UnusedVarProofs.v guard_flags); the second field lists what the tree-level specification
   of C15 requires, in the format of engine `unusedvar`; the third what the property
   read on the source text requires (call names and for-counters are mentions, an indexed member is a member). *)
open Driver_common
open UnusedVar
open UnusedVarProofs

let run_case (line : string) : string =
  let line = Stdlib.String.trim line in
  if line = "" then "NOTREE" else
  let file = Tree_io.node_of_string line in
  let flags = Stdlib.String.concat "" (Stdlib.List.map (fun b -> if b then "1" else "0") (guard_flags key_today file)) in
  let ds = Stdlib.List.map Eng_unusedvar.show_diag (unused_spec file) in
  let es = Stdlib.List.map Eng_unusedvar.show_diag (unused_spec_ext file) in
  flags ^ "|" ^ Stdlib.String.concat ";" (Stdlib.List.sort compare ds) ^ "|" ^ Stdlib.String.concat ";" (Stdlib.List.sort compare es)
