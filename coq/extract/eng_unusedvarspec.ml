(* model-only engine `unusedvarspec`: input = tree dump;
   output = <top_flat>|<unused_spec, sorted>|<dup_spec, sorted>|<the analyser BEFORE the repair, sorted>
   top_flat: one character 0/1, Proofs/UnusedVarProofs.v top_flat_b (method nodes are children of the root);
   the second and third fields list what the tree-level specification of C15 requires (the warnings, the
   "already declared" errors), in the format of engine `unusedvar`; the fourth what the analyser said before
   the repair of tools/c15_proposed_fix.diff (UnusedVar.analyze_old), for the regression cases. *)
open Driver_common
open UnusedVar
open UnusedVarProofs

let run_case (line : string) : string =
  let line = Stdlib.String.trim line in
  if line = "" then "NOTREE" else
  let file = Tree_io.node_of_string line in
  let show l = Stdlib.String.concat ";" (Stdlib.List.sort compare (Stdlib.List.map Eng_unusedvar.show_diag l)) in
  (if top_flat_b file then "1" else "0") ^ "|" ^ show (unused_spec file) ^ "|" ^ show (dup_spec file)
  ^ "|" ^ show (analyze_old key_today file)
