(* vmodel <engine> : one case per stdin line, one model result per stdout line *)
let () =
  let engine = if Array.length Sys.argv > 1 then Sys.argv.(1) else "" in
  let f = match engine with
    | "symtab" -> Eng_symtab.run_case
    | _ -> prerr_endline ("unknown engine " ^ engine); exit 2 in
  (try
    while true do
      let line = input_line stdin in
      print_string (f line); print_char '\n'
    done
  with End_of_file -> ());
  flush stdout
