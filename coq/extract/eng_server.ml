(* script: items separated by ',': R<id>:<method> | N:<method> | S<id> | E ; optional ";<schedule>"
   output: sorted response ids (space separated) | exit status *)
open Driver_common
open Server

let parse_item (s : string) : msg =
  let n = Stdlib.String.length s in
  match Stdlib.String.get s 0 with
  | 'R' -> let k = Stdlib.String.index s ':' in
    MReq (n_of_int (int_of_string (Stdlib.String.sub s 1 (k - 1))), str_of_string (Stdlib.String.sub s (k + 1) (n - k - 1)))
  | 'N' -> MNotif (str_of_string (Stdlib.String.sub s 2 (n - 2)))
  | 'S' -> MShutdown (n_of_int (int_of_string (Stdlib.String.sub s 1 (n - 1))))
  | 'E' -> MExit
  | _ -> failwith "bad script item"

let run_case (line : string) : string =
  let script, sched = match Stdlib.String.index_opt line ';' with
    | Some k -> Stdlib.String.sub line 0 k, Stdlib.String.sub line (k + 1) (Stdlib.String.length line - k - 1)
    | None -> line, "" in
  let items = Stdlib.List.filter (fun s -> s <> "") (Stdlib.String.split_on_char ',' script) in
  let sched = if sched = "" then [] else
      Stdlib.List.map (fun grp -> if grp = "" then [] else
        Stdlib.List.map (fun x -> nat_of_int (int_of_string x)) (Stdlib.String.split_on_char '.' grp))
        (Stdlib.String.split_on_char '/' sched) in
  let (st, status) = run_server (Stdlib.List.map parse_item items) sched in
  let ids = Stdlib.List.sort compare (Stdlib.List.map int_of_n st.sent) in
  Stdlib.String.concat " " (Stdlib.List.map string_of_int ids) ^ "|" ^ string_of_int (int_of_n status)
