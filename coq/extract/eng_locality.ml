(* E-parse / locality, model side (C09).
   input : "<text1 as code points>#<text2 as code points>[@<annotation of the check, ignored here>]"
   output: "<obs1>#<obs2>",  obs = <rest length>|<tree dump>|<diagnostics>|<outline>
   -- the same line harness/src/eng_locality.rs prints: lexer model, parser model (memoisation on, as the
   code runs), outline model on the model's own tree. *)
open Driver_common
open Lexer
open PComb

let obs (text : coq_N list) : string =
  let (toks, _errs) = Lexer.lex text in
  let (r, c) = Grammar.parse_gold_with true (Grammar.default_fuel toks) toks in
  match r with
  | Ok (rest, root) ->
    Printf.sprintf "%d|%s|%s|%s" (Stdlib.List.length rest) (Tree_io.string_of_node root)
      (Stdlib.String.concat ";" (Stdlib.List.rev_map Eng_parse.show_diag c.cdiags))
      (match Outline.outline_run root with
       | Some l -> Eng_outline.show_list l
       | None -> "MODEL-PANIC unwrap of children")
  | Err (_, _) -> "MODEL-ERR"
  | Panic s -> "PANIC model site " ^ string_of_int (int_of_n s)
  | NoFuel -> "MODEL-NOFUEL"

let run_case (line : string) : string =
  let body = match Stdlib.String.index_opt line '@' with
    | Some k -> Stdlib.String.sub line 0 k
    | None -> line in
  let body = Stdlib.String.trim body in
  let (a, b) = match Stdlib.String.index_opt body '#' with
    | Some k -> (Stdlib.String.sub body 0 k, Stdlib.String.sub body (k + 1) (Stdlib.String.length body - k - 1))
    | None -> (body, "") in
  obs (str_of_cps (Stdlib.String.trim a)) ^ "#" ^ obs (str_of_cps (Stdlib.String.trim b))
