(* Extraction of the unused-variable analyser model (engine `unusedvar`) and of the tree-level
   specification with its guard checkers (model-only engine `unusedvarspec`).
   Directives: ExtrOcamlBasic only. *)
From Coq Require Import ExtrOcamlBasic.
From GoldV Require Import Base Tokens Lexer AstKinds Tree UnusedVar UnusedVarProofs.
Extraction Language OCaml.
Separate Extraction UnusedVar.analyze UnusedVar.analyze_today UnusedVar.key_today Base.upper UnusedVarProofs.guard_flags UnusedVarProofs.unused_spec UnusedVarProofs.unused_spec_ext.
