(* Extraction of the unused-variable analyser model (engine `unusedvar`) and of the tree-level
   specification and the tree-shape checker top_flat_b (model-only engine `unusedvarspec`).
   Directives: ExtrOcamlBasic only. *)
From Coq Require Import ExtrOcamlBasic.
From GoldV Require Import Base Tokens Lexer AstKinds Tree UnusedVar UnusedVarProofs.
Extraction Language OCaml.
Separate Extraction UnusedVar.analyze UnusedVar.analyze_today UnusedVar.analyze_old UnusedVar.key_today Base.upper UnusedVarProofs.top_flat_b UnusedVarProofs.unused_spec UnusedVarProofs.dup_spec.
