(* Extraction of the pool model's trace monitor for the E-pool correspondence engine.
   Directives used: those of ExtrOcamlBasic only. *)
From Coq Require Import ExtrOcamlBasic.
From GoldV Require Import Base Pool.
Extraction Language OCaml.
Separate Extraction Pool.first_bad Pool.trace_ok Pool.run Pool.trace Pool.init.
