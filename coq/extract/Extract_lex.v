From Coq Require Import ExtrOcamlBasic.
From GoldV Require Import Base Tokens Keywords Lexer.
Extraction Language OCaml.
Separate Extraction Lexer.lex Tokens.tt_idx Tokens.tt_of_idx.
