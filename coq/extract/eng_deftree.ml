(* E-deftree, model side: input = the whole line of harness/src/eng_deftree.rs,
     "<tree dump>@<stem cps>@<l:c,l:c,...>#<implementation's answers>"
   output: one answer per position joined by ';', answer = D<links>C<labels> (format: see eng_deftree.rs).
   A part whose outcome is Outside (needs another document: not modelled) is printed as '?' followed by the
   implementation's own answer for that part, so that the comparison (canon = drop the '?') skips it while the
   check can still count the skipped parts. *)
open Driver_common
open Lexer
open DefTree

let show_range (r : range) : string =
  Printf.sprintf "%d:%d:%d:%d" (int_of_n r.rstart.pline) (int_of_n r.rstart.pcol)
    (int_of_n r.rend.pline) (int_of_n r.rend.pcol)

let show_links l =
  if l = [] then "-" else Stdlib.String.concat "," (Stdlib.List.map (fun (s, r) -> show_range s ^ "/" ^ show_range r) l)
let show_labels l =
  if l = [] then "-" else Stdlib.String.concat "," (Stdlib.List.map (fun s -> if s = [] then "~" else cps_of_str s) l)

(* "D<links>C<labels>" -> (links, labels); the link syntax has no 'C' *)
let split_answer (a : string) : string * string =
  match Stdlib.String.index_opt a 'C' with
  | Some i -> (Stdlib.String.sub a 1 (i - 1), Stdlib.String.sub a (i + 1) (Stdlib.String.length a - i - 1))
  | None -> (a, "")

let run_case (line : string) : string =
  if line = "" || line.[0] = 'X' then ""
  else
    let h = Stdlib.String.index line '#' in
    let head = Stdlib.String.sub line 0 h in
    let impl = Stdlib.String.sub line (h + 1) (Stdlib.String.length line - h - 1) in
    match Stdlib.String.split_on_char '@' head with
    | [dump; stem; poss] ->
      let root = Tree_io.node_of_string dump in
      let stem = str_of_cps stem in
      let ps = if poss = "" then [] else Stdlib.String.split_on_char ',' poss in
      let impls = Stdlib.Array.of_list (if impl = "" then [] else Stdlib.String.split_on_char ';' impl) in
      let out = Stdlib.List.mapi (fun i p ->
        let (il, ic) = if i < Stdlib.Array.length impls then split_answer impls.(i) else ("", "") in
        let pos = match Stdlib.String.split_on_char ':' p with
          | [l; c] -> { pline = n_of_int (int_of_string l); pcol = n_of_int (int_of_string c) }
          | _ -> failwith "bad position" in
        let d = match definition root stem pos with Outside -> "?" ^ il | Ans l -> show_links l in
        let c = match completion root stem pos with Outside -> "?" ^ ic | Ans l -> show_labels l in
        "D" ^ d ^ "C" ^ c) ps in
      Stdlib.String.concat ";" out
    | _ -> failwith "bad case"
