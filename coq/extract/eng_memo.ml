(* E-memo, model side (property C07): the observations of harness/src/eng_memo.rs from the extracted
   parser model: parse_gold_with true on whole files, MemoObs.parse_body_with true / false on body slices. *)
open Driver_common
open Lexer
open PComb
open Tree

let diag_set (ds : pdiag list) : string =
  Stdlib.String.concat ";" (Stdlib.List.sort_uniq compare (Stdlib.List.map Eng_parse.show_diag ds))

let log_str (l : (coq_N * coq_N) list) : string =
  let v = Stdlib.List.sort compare (Stdlib.List.map (fun (k, n) -> (int_of_n k, int_of_n n)) l) in
  Stdlib.String.concat "," (Stdlib.List.map (fun (k, n) -> Printf.sprintf "%d:%d" k n) v)

let stmts_str (l : node list) : string = Stdlib.String.concat " " (Stdlib.List.map Tree_io.string_of_node l)

(* (stmts, diag set, evaluation log) *)
let run_body (memo : bool) (toks : tok list) : string * string * string =
  let (r, c) = MemoObs.parse_body_with memo (MemoObs.body_fuel toks) toks in
  match r with
  | Ok (_, stmts) -> (stmts_str stmts, diag_set c.cdiags, log_str c.cevals)
  | Err (_, _) -> ("MODEL-ERR", "", "")
  | Panic s -> ("PANIC model site " ^ string_of_int (int_of_n s), "", "")
  | NoFuel -> ("MODEL-NOFUEL", "", "")

let rec find_bodies (n : node) (acc : string list ref) : unit =
  if nkind n = AstKinds.KAstMethodBody then acc := stmts_str (nchildren n) :: !acc
  else Stdlib.List.iter (fun c -> find_bodies c acc) (nchildren n)

let split_first (c : char) (s : string) : (string * string) option =
  match Stdlib.String.index_opt s c with
  | None -> None
  | Some i -> Some (Stdlib.String.sub s 0 i, Stdlib.String.sub s (i + 1) (Stdlib.String.length s - i - 1))

let run_case (line : string) : string =
  let line = Stdlib.String.trim line in
  match split_first ':' line with
  | None -> "BAD-CASE"
  | Some (kind, spec) ->
    if kind = "B" || kind = "T" then begin
      let (toks, _) = Lexer.lex (str_of_cps spec) in
      let n = Stdlib.List.length toks in
      let (s, d, l) = run_body true toks in
      if kind = "T" then Printf.sprintf "T|%d|%s~%s~%s" n s d l
      else begin
        let (so, d_o, _) = run_body false toks in
        Printf.sprintf "B|%d|%s~%s~%s|%s~%s|same" n s d l so d_o
      end
    end else if kind = "F" || kind = "G" then begin
      let parts = Stdlib.List.map str_of_cps (Stdlib.String.split_on_char '/' spec) in
      let text = Stdlib.List.concat parts in
      let (_, bodies, _) =
        Stdlib.List.fold_left (fun (j, acc, off) p ->
            let n = Stdlib.List.length p in
            (j + 1, (if j mod 2 = 1 then (off, off + n) :: acc else acc), off + n)) (0, [], 0) parts in
      let bodies = Stdlib.List.rev bodies in
      let (toks, _) = Lexer.lex text in
      let (r, c) = Grammar.parse_gold_with true (Grammar.default_fuel toks) toks in
      match r with
      | Ok (rest, root) ->
        let b = Stdlib.Buffer.create 1024 in
        Stdlib.Buffer.add_string b
          (Printf.sprintf "%s|%d|%s|%s" kind (Stdlib.List.length rest) (Tree_io.string_of_node root)
             (Stdlib.String.concat ";" (Stdlib.List.rev_map Eng_parse.show_diag c.cdiags)));
        let acc = ref [] in
        find_bodies root acc;
        Stdlib.List.iter (fun s -> Stdlib.Buffer.add_char b '#'; Stdlib.Buffer.add_string b s) (Stdlib.List.rev !acc);
        Stdlib.List.iter (fun (lo, hi) ->
            let sl = Stdlib.List.filter (fun t -> let p = int_of_n t.traw in p >= lo && p < hi) toks in
            let (s, d, l) = run_body true sl in
            if kind = "G" then Stdlib.Buffer.add_string b (Printf.sprintf "@%d~%s~%s~%s" (Stdlib.List.length sl) s d l)
            else begin
              let (so, d_o, _) = run_body false sl in
              Stdlib.Buffer.add_string b (Printf.sprintf "@%d~%s~%s~%s~%s~%s" (Stdlib.List.length sl) s d l so d_o)
            end) bodies;
        Stdlib.Buffer.contents b
      | Err (_, _) -> "MODEL-ERR"
      | Panic s -> "PANIC model site " ^ string_of_int (int_of_n s)
      | NoFuel -> "MODEL-NOFUEL"
    end else "BAD-CASE"
