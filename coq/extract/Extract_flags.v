(* Extraction of the annotation-flag protocol model (engine `flags`, property C14). ExtrOcamlBasic only. *)
From Coq Require Import ExtrOcamlBasic.
From GoldV Require Import Base Flags.
Extraction Language OCaml.
Separate Extraction Flags.tstep Flags.nstep Flags.init Flags.rr Flags.all_done Flags.tdone Flags.run.
