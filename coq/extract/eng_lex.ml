open Driver_common
open Lexer

let show_tok (t : tok) : string =
  let r = t.trange in
  Printf.sprintf "%d:%d:%d:%d:%d:%d:%s" (int_of_n (Tokens.tt_idx t.tty)) (int_of_n t.traw)
    (int_of_n r.rstart.pline) (int_of_n r.rstart.pcol) (int_of_n r.rend.pline) (int_of_n r.rend.pcol)
    (cps_of_str t.tval)

let show_err (e : lexerr) : string =
  let r = e.erange in
  Printf.sprintf "%d:%d:%d:%d:%d" (int_of_n r.rstart.pline) (int_of_n r.rstart.pcol)
    (int_of_n r.rend.pline) (int_of_n r.rend.pcol) (int_of_n e.echar)

let lex_obs (text : coq_N list) : string =
  let (toks, errs) = lex text in
  Stdlib.String.concat ";" (Stdlib.List.map show_tok toks) ^ "|" ^ Stdlib.String.concat ";" (Stdlib.List.map show_err errs)

let run_case (line : string) : string = lex_obs (str_of_cps (Stdlib.String.trim line))
