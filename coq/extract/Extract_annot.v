(* Extraction of the annotator's table-building model (C10/C11 tie to the syntax tree).  ExtrOcamlBasic directives only. *)
From Coq Require Import ExtrOcamlBasic.
From GoldV Require Import Base Tokens Lexer AstKinds Tree SymTab Scoping Annot AnnotProofs.
Extraction Language OCaml.
Separate Extraction Annot.annotate Annot.root_table_of Annot.method_tables_of Scoping.kcode AnnotProofs.regularb.
