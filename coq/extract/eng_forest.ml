(* E-sem / E-sched, model side (engine `forest`, C13 and C14).
   Case and result formats: see harness/src/eng_forest.rs. *)
open BinNums
open Datatypes
open Driver_common
open Forest
open Locks

type tok = { tname : string; tline : int; tcol : int }
type member = { mname : string; mline : int; mcol : int }
type filespec = {
  stem : string; cls : tok option; par : tok option; uses : string list;
  members : member list; nprobes : int;
}

let split c s = Stdlib.String.split_on_char c s

let parse_tok (s : string) : tok option =
  if s = "-" || s = "" then None
  else match split ':' s with
    | [n; l; c] -> Some { tname = n; tline = int_of_string l; tcol = int_of_string c }
    | _ -> failwith "bad token"

let parse_file (s : string) : filespec =
  match split '~' s with
  | [stem; cls; par; uses; members; probes; _text] ->
    let members = if members = "-" then [] else
        Stdlib.List.map (fun m -> match split ':' m with
            | [n; _k; l; c] -> { mname = n; mline = int_of_string l; mcol = int_of_string c }
            | _ -> failwith "bad member") (split '+' members) in
    { stem; cls = parse_tok cls; par = parse_tok par;
      uses = (if uses = "-" then [] else split '+' uses);
      members; nprobes = (if probes = "-" then 0 else Stdlib.List.length (split '+' probes)) }
  | _ -> failwith "bad file spec"

let up (s : string) : string = Stdlib.String.uppercase_ascii s
let key (s : string) : coq_N list = Base.upper (str_of_string s)

let item (name : string) (stem : string) (l : int) (c : int) : string =
  Printf.sprintf "%s@%s@%d:%d-%d:%d=%s" (up name) stem l c l (c + Stdlib.String.length name) name

let sorted (l : string list) : string = Stdlib.String.concat "," (Stdlib.List.sort compare l)

(* the file a class name resolves to: DocumentService::get_uri_for_class goes by file stem *)
let file_of_key (files : filespec list) (k : coq_N list) : filespec option =
  Stdlib.List.find_opt (fun f -> key f.stem = k) files

(* generate_entity_type_hierarchy_item: the class symbol of the file found through the stem *)
let class_item (files : filespec list) (k : coq_N list) : string list =
  match file_of_key files k with
  | Some f -> (match f.cls with
      | Some c when key c.tname = k -> [item c.tname f.stem c.tline c.tcol]
      | _ -> [])
  | None -> []

let member_item (files : filespec list) (k : coq_N list) (mname : string) : string list =
  match file_of_key files k with
  | Some f -> (match Stdlib.List.find_opt (fun m -> up m.mname = up mname) (Stdlib.List.rev f.members) with
      | Some m -> [item m.mname f.stem m.mline m.mcol]
      | None -> [])
  | None -> []

let decls_of (files : filespec list) : coq_N list -> coq_N list list option =
  fun k -> match file_of_key files k with
    | Some f -> Some (Stdlib.List.map (fun m -> key m.mname) f.members)
    | None -> None

let model_files (files : filespec list) : (coq_N list * coq_N list option) list =
  Stdlib.List.filter_map (fun f -> match f.cls with
      | Some c -> Some (str_of_string c.tname,
                        (match f.par with Some p -> Some (str_of_string p.tname) | None -> None))
      | None -> None) files

let build_mode (mode : string) (mfiles : (coq_N list * coq_N list option) list) : tree option =
  match split ':' mode with
  | ["seq"] -> Some (build mfiles)
  | ["par"; chunk; _k] ->
    let n = int_of_string chunk in
    let cs = chunks (nat_of_int n) mfiles in
    let nth = Stdlib.List.length cs in
    let s = run true true (rr_sched (nat_of_int nth) (nat_of_int (5 * (Stdlib.min n (Stdlib.List.length mfiles)) + 1))) (init cs) in
    if all_done s then Some s.st else None
  | ["sched"; kind] ->
    (* one thread per file, lock step: every look-up happens before the corresponding inserts *)
    let cs = chunks (nat_of_int 1) mfiles in
    let nth = Stdlib.List.length cs in
    let round = Stdlib.List.init nth (fun i -> nat_of_int (if kind = "rvB" then nth - 1 - i else i)) in
    let sched = Stdlib.List.concat (Stdlib.List.init 6 (fun _ -> round)) in
    let s = run true true sched (init cs) in
    if all_done s then Some s.st else None
  | _ -> failwith "bad mode"

let hierarchy (mode : string) (files : filespec list) : string =
  let mfiles = model_files files in
  match build_mode mode mfiles with
  | None -> "MODEL-NOT-DONE"
  | Some t ->
    let d = decls_of files in
    let out = ref [] in
    Stdlib.List.iter (fun f ->
        (match f.cls with
         | Some c ->
           let prep = item c.tname f.stem c.tline c.tcol in
           let sup = Stdlib.List.concat_map (class_item files) (supertypes t (str_of_string c.tname)) in
           let sub = Stdlib.List.concat_map (class_item files) (subtypes t (str_of_string c.tname)) in
           out := Printf.sprintf "c.%s[%s|%s|%s]" f.stem prep (sorted sup) (sorted sub) :: !out
         | None -> ());
        Stdlib.List.iter (fun m ->
            (* prepare resolves the member through the scope chain of the file's own table *)
            let prep = item m.mname f.stem m.mline m.mcol in
            let cname = match f.cls with Some c -> Some c.tname | None -> None in
            let sup, sub = match cname with
              | None -> "", ""     (* a file without class: `Cannot find class` / no entity *)
              | Some cn ->
                let sup = match member_supertypes t d (str_of_string cn) (str_of_string m.mname) with
                  | Ok (Some p) -> sorted (member_item files (key_of t p) m.mname)
                  | Ok None -> ""
                  | Deadlock _ -> "MODEL-DEADLOCK"
                  | OutOfFuel -> "MODEL-NOFUEL" in
                let sub = match member_subtypes t d (str_of_string cn) (str_of_string m.mname) with
                  | Ok ps -> sorted (Stdlib.List.concat_map (fun p -> member_item files (key_of t p) m.mname) ps)
                  | Deadlock _ -> "MODEL-DEADLOCK"
                  | OutOfFuel -> "MODEL-NOFUEL" in
                sup, sub in
            out := Printf.sprintf "m.%s.%s[%s|%s|%s]" f.stem m.mname prep sup sub :: !out)
          f.members) files;
    Stdlib.String.concat ";" (Stdlib.List.rev !out)

(* C14: the model's prediction for every request of the harness: answered (`ok`) unless the
   lock-aware model runs into a Deadlock / unbounded recursion *)
let requests_mode (order : string) (files : filespec list) : string =
  let files = if order = "r" then Stdlib.List.rev files else files in
  let cfiles = Stdlib.List.map (fun f ->
      { cstem = key f.stem;
        chead = (match f.cls with
            | Some c -> Some (str_of_string c.tname, (match f.par with Some p -> Some (str_of_string p.tname) | None -> None))
            | None -> None);
        cuses = Stdlib.List.map str_of_string f.uses }) files in
  let stems = Stdlib.List.map (fun f -> key f.stem) files in
  let (bs, _) = requests true cfiles ast0 (stems @ stems) in
  let t = build (model_files files) in
  let d = decls_of files in
  let n = Stdlib.List.length files in
  let walkers_ok (f : filespec) : bool =
    match f.cls with
    | None -> true
    | Some c ->
      Stdlib.List.for_all (fun m ->
          (match member_supertypes t d (str_of_string c.tname) (str_of_string m.mname) with Ok _ -> true | _ -> false) &&
          (match member_subtypes t d (str_of_string c.tname) (str_of_string m.mname) with Ok _ -> true | _ -> false))
        f.members in
  let round (r : int) : string =
    let outs = ref [] in
    let count = ref 0 in
    let push name ok = incr count; if not ok then outs := (name ^ "=MODEL-STUCK") :: !outs in
    if r = 0 then begin push "index" true; push "tree" true end;
    Stdlib.List.iteri (fun i f ->
        let ok = Stdlib.List.nth bs (r * n + i) in
        push ("diag." ^ f.stem) ok;
        let points = Stdlib.List.init f.nprobes (fun k -> "b" ^ string_of_int k)
                     @ (match f.par with Some _ -> ["par"] | None -> [])
                     @ (match f.cls with Some _ -> ["cls"] | None -> []) in
        Stdlib.List.iter (fun p ->
            push ("def." ^ f.stem ^ "." ^ p) ok;
            push ("comp." ^ f.stem ^ "." ^ p) ok) points;
        let hpoints = (match f.cls with Some _ -> ["cls"] | None -> [])
                      @ (match f.par with Some _ -> ["par"] | None -> [])
                      @ Stdlib.List.map (fun m -> "m" ^ m.mname) f.members in
        let wok = walkers_ok f in
        Stdlib.List.iter (fun p ->
            push ("prep." ^ f.stem ^ "." ^ p) ok;
            push ("sup." ^ f.stem ^ "." ^ p) (ok && wok);
            push ("sub." ^ f.stem ^ "." ^ p) (ok && wok)) hpoints;
        (match f.cls with
         | Some c ->
           let g = str_of_string "zzNoSuchMember" in
           push ("sup." ^ f.stem ^ ".ghost")
             (ok && (match member_supertypes t d (str_of_string c.tname) g with Ok _ -> true | _ -> false));
           push ("sub." ^ f.stem ^ ".ghost")
             (ok && (match member_subtypes t d (str_of_string c.tname) g with Ok _ -> true | _ -> false))
         | None -> ())) files;
    Printf.sprintf "%d:0:%s" !count (Stdlib.String.concat "," (Stdlib.List.rev !outs)) in
  let r0 = round 0 in
  r0 ^ "#" ^ round 1

let run_case (line : string) : string =
  let line = Stdlib.String.trim line in
  match Stdlib.String.index_opt line '|' with
  | None -> "BADCASE"
  | Some k ->
    let mode = Stdlib.String.sub line 0 k in
    let rest = Stdlib.String.sub line (k + 1) (Stdlib.String.length line - k - 1) in
    let files = Stdlib.List.map parse_file (Stdlib.List.filter (fun s -> s <> "") (split ';' rest)) in
    if Stdlib.String.length mode >= 4 && Stdlib.String.sub mode 0 4 = "conc" then
      (* C14_concurrent_lookups_no_deadlock (concurrent look-ups) and C14_concurrent_analyses_acyclic
         (concurrent analyses with the atomic check-and-link step): every request is answered *)
      "conc=ok"
    else if Stdlib.String.length mode >= 3 && Stdlib.String.sub mode 0 3 = "req" then
      requests_mode (match split ':' mode with [_; o] -> o | _ -> "f") files
    else hierarchy mode files
