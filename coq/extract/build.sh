#!/bin/sh
# Extract the models and build the OCaml model runner.  Run from anywhere.
set -e
cd "$(dirname "$0")"
rm -rf gen && mkdir gen && cd gen
coqc -Q ../../theories GoldV ../Extract.v >/dev/null
rm -f ../Extract.vo ../Extract.glob ../Extract.vok ../Extract.vos ../.Extract.aux
cp ../driver_common.ml ../eng_*.ml ../vmodel.ml .
# dependency order via ocamlfind ocamldep -sort
MLS=$(ocamlfind ocamldep -sort *.ml *.mli 2>/dev/null)
ocamlfind ocamlopt -w -a -O2 -o ../vmodel $MLS 2>/dev/null || ocamlfind ocamlopt -w -a -o ../vmodel $MLS
echo built vmodel
