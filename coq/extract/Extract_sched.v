From Coq Require Import ExtrOcamlBasic.
From GoldV Require Import Base Sched.
Extraction Language OCaml.
Separate Extraction Sched.run Sched.init Sched.answers.
