(* E-encase, model side (C06).
   input : "<tree dump>@<line>:<col>,<line>:<col>,..." as printed by harness/src/eng_encase.rs before the '#'
   output: "<answer>;<answer>;..."   answer = kindidx:sl:sc:el:ec of the node Encase.search returns *)
open Driver_common
open Lexer
open Tree

let run_case (line : string) : string =
  let k = Stdlib.String.rindex line '@' in
  let dump = Stdlib.String.sub line 0 k in
  let ps = Stdlib.String.sub line (k + 1) (Stdlib.String.length line - k - 1) in
  let root = Tree_io.node_of_string dump in
  let one (p : string) : string =
    match Stdlib.String.split_on_char ':' p with
    | [l; c] ->
      let pos = { pline = n_of_int (int_of_string l); pcol = n_of_int (int_of_string c) } in
      let n = Encase.search pos root in
      let r = nrange n in
      Printf.sprintf "%d:%d:%d:%d:%d" (int_of_n (AstKinds.ak_idx (nkind n)))
        (int_of_n r.rstart.pline) (int_of_n r.rstart.pcol) (int_of_n r.rend.pline) (int_of_n r.rend.pcol)
    | _ -> failwith ("bad position " ^ p) in
  Stdlib.String.concat ";" (Stdlib.List.map one (Stdlib.List.filter (fun s -> s <> "") (Stdlib.String.split_on_char ',' ps)))
