(* case: <opened|-> <saved|-> <disk>;<notifs: c<v> | o<v> (old change) | s | x (close), comma separated>;<schedule: M/R chars>
   output: the requests' answers in order: <version>:<acceptable versions joined by /> separated by spaces *)
open Driver_common
open Sched

let opt s = if s = "-" then None else Some (n_of_int (int_of_string s))

let run_case (line : string) : string =
  match Stdlib.String.split_on_char ';' line with
  | [st; ns; sc] ->
    (match Stdlib.String.split_on_char ' ' st with
     | [o; s; d] ->
       let notifs = Stdlib.List.filter_map (fun x ->
           if x = "" then None else
             let arg () = n_of_int (int_of_string (Stdlib.String.sub x 1 (Stdlib.String.length x - 1))) in
             Some (match Stdlib.String.get x 0 with
                 | 'c' -> NChange (arg ()) | 'o' -> NChangeOld (arg ()) | 's' -> NSave | 'x' -> NClose
                 | _ -> failwith "bad notif")) (Stdlib.String.split_on_char ',' ns) in
       let sched = Stdlib.List.init (Stdlib.String.length sc) (fun i -> if Stdlib.String.get sc i = 'M' then EMain else ERead) in
       let g = run sched (init (opt o) (opt s) (n_of_int (int_of_string d)) notifs) in
       Stdlib.String.concat " " (Stdlib.List.rev_map (fun (v, acc) ->
           string_of_int (int_of_n v) ^ ":" ^ Stdlib.String.concat "/" (Stdlib.List.map (fun x -> string_of_int (int_of_n x)) acc)) g.answers)
     | _ -> "BADCASE")
  | _ -> "BADCASE"
