(* Extraction of the assembled-response model (engine `report`; ExtrOcamlBasic directives only). *)
From Coq Require Import ExtrOcamlBasic.
From GoldV Require Import Base Tokens Lexer AstKinds Tree UnusedVar Lints Report.
Extraction Language OCaml.
Separate Extraction Report.report Report.request Report.fresh_rdoc Report.msg_text Report.alone_unused Report.alone_ret Report.alone_unpurged Report.alone_naming Report.alone_inherited.
