(* E-recase, model side (C17).
   input : "<files of W>|<files of W'>|<answers W>@P@<answers W'>" as printed by harness/src/eng_recase.rs before "@S@"
           files = `<Stem>=<text as code points>` joined by `;`
   output: "<obs W>@P@<obs W'>", obs = <file part>@Q@<answers>: the same line the harness prints after "@S@".
   The file part (per file `<Stem>^T<tree dump>^O<outline>^G<diagnostics>` joined by `%`) is COMPUTED by the extracted
   models: Lexer.lex, Grammar.parse_gold_with, Outline.outline_run, UnusedVar.analyze_today, Lints.request, and the
   parser model's diagnostics.  The answers (definition / completion / hierarchy) are echoed: the models of those
   services are tied to the code by C10 / C11 / C13; C17 compares them between W and W'.
   Besides, the model checks its own theorem on the pair: the two token lists must satisfy forall2b tok_simb and the
   two roots node_simb (Proofs/RecaseTop.v parse_gold_sim), the roots decl_exactb ("declarations left as written", the
   hypothesis of the consumer theorems) and every tree dot_ok (the guard of the unused-variable theorem); a failure is
   printed as MODEL-NOT-SIM / MODEL-DECL-NOT-EXACT / MODEL-DOT-NOT-OK in front of W's file part. *)
open Driver_common
open Lexer

let show_range (r : range) : string =
  Printf.sprintf "%d:%d:%d:%d" (int_of_n r.rstart.pline) (int_of_n r.rstart.pcol)
    (int_of_n r.rend.pline) (int_of_n r.rend.pcol)

let cps (l : coq_N list) : string = if l = [] then "-" else cps_of_str l

let rec show_sym (d : Outline.dsym) : string =
  Stdlib.String.concat "|" [
    cps d.Outline.ds_name;
    (match d.Outline.ds_detail with None -> "~" | Some s -> cps s);
    string_of_int (int_of_n d.Outline.ds_kind);
    show_range d.Outline.ds_range;
    show_range d.Outline.ds_sel;
    (match d.Outline.ds_children with None -> "~" | Some l -> show_list l) ]
and show_list (l : Outline.dsym list) : string =
  "[" ^ Stdlib.String.concat "," (Stdlib.List.map show_sym l) ^ "]"

let lint_class = function
  | Lints.RET -> "RET" | Lints.INH -> "INH" | Lints.PURGE -> "PURGE" | Lints.NPROC -> "NPROC" | Lints.NFUNC -> "NFUNC"
  | Lints.NFIELD -> "NFIELD" | Lints.NPARAM -> "NPARAM" | Lints.NLOCAL -> "NLOCAL" | Lints.NTYPE -> "NTYPE" | Lints.NCONST -> "NCONST"

let diag_line (cls : string) (sev : int) (r : range) (key : coq_N list) : string =
  Printf.sprintf "%s:%d:%s:%s" cls sev (show_range r) (cps key)

type parsed = { toks : tok list; root : Tree.node option; part : string }

(* GoldLexerError.msg = format!("Unknown first symbol: {}", c); DocumentService::parse_content appends the lexer's
   errors to the parser's diagnostics *)
let lex_msg (c : coq_N) : coq_N list = str_of_string "Unknown first symbol: " @ [c]

let analyse (stem : string) (text : coq_N list) : parsed =
  let (toks, errs) = Lexer.lex text in
  let (r, c) = Grammar.parse_gold_with true (Grammar.default_fuel toks) toks in
  match r with
  | PComb.Ok (_rest, root) ->
    let tree = Tree_io.string_of_node root in
    let outline = (match Outline.outline_run root with Some l -> show_list l | None -> "PANIC model: unwrap of children") in
    let pd = Stdlib.List.map (fun (d : PComb.pdiag) -> diag_line "P" 1 d.PComb.drange d.PComb.dmsg) c.PComb.cdiags in
    let ud = Stdlib.List.map (fun (d : UnusedVar.diag) ->
        diag_line (match int_of_n d.UnusedVar.dclass with 0 -> "U" | 1 -> "D" | _ -> "?") (int_of_n d.UnusedVar.dsev)
          d.UnusedVar.drange d.UnusedVar.dkey) (UnusedVar.analyze_today root) in
    let (ld, _) = Lints.request (Lints.fresh_doc root) in
    let ld = Stdlib.List.map (fun (d : Lints.diag) ->
        diag_line (lint_class d.Lints.dcls) (int_of_n d.Lints.dsev) d.Lints.drng d.Lints.dkey) ld in
    let ed = Stdlib.List.map (fun (e : lexerr) -> diag_line "P" 1 e.erange (lex_msg e.echar)) errs in
    let ds = Stdlib.List.sort compare (pd @ ed @ ud @ ld) in
    { toks; root = Some root;
      part = Printf.sprintf "%s^T%s^O%s^G%s" stem tree outline (Stdlib.String.concat ";" ds) }
  | PComb.Err (_, _) -> { toks; root = None; part = stem ^ "^TMODEL-ERR^O^G" }
  | PComb.Panic s -> { toks; root = None; part = stem ^ "^TPANIC model site " ^ string_of_int (int_of_n s) ^ "^O^G" }
  | PComb.NoFuel -> { toks; root = None; part = stem ^ "^TMODEL-NOFUEL^O^G" }

let files_of (s : string) : (string * coq_N list) list =
  Stdlib.List.filter_map (fun f ->
      if f = "" then None else
        match Stdlib.String.index_opt f '=' with
        | Some k -> Some (Stdlib.String.sub f 0 k, str_of_cps (Stdlib.String.sub f (k + 1) (Stdlib.String.length f - k - 1)))
        | None -> None)
    (Stdlib.String.split_on_char ';' s)

(* split at the first occurrence of a separator string *)
let split_at (sep : string) (s : string) : string * string =
  let n = Stdlib.String.length s and m = Stdlib.String.length sep in
  let rec go i = if i + m > n then None else if Stdlib.String.sub s i m = sep then Some i else go (i + 1) in
  match go 0 with
  | Some i -> (Stdlib.String.sub s 0 i, Stdlib.String.sub s (i + m) (n - i - m))
  | None -> (s, "")

let run_case (line : string) : string =
  match Stdlib.String.split_on_char '|' line with
  | fa :: fb :: rest ->
    let answers = Stdlib.String.concat "|" rest in
    let (aa, ab) = split_at "@P@" answers in
    let pa = Stdlib.List.map (fun (s, t) -> analyse s t) (files_of fa) in
    let pb = Stdlib.List.map (fun (s, t) -> analyse s t) (files_of fb) in
    (* the model's own theorems on this pair (only meaningful when W' is a re-casing of W: same number of files):
       similar token lists give similar roots (parse_gold_sim); the hypotheses of the consumer theorems hold of what
       the generator calls "declarations left as written" (decl_exactb) and of every parsed tree (dot_ok) *)
    let same_n = Stdlib.List.length pa = Stdlib.List.length pb in
    let sim_ok =
      (not same_n) ||
      Stdlib.List.for_all2 (fun a b ->
          (not (Recase.forall2b Recase.tok_simb a.toks b.toks)) ||
          (match a.root, b.root with
           | Some r, Some r' -> Recase.node_simb r r'
           | None, None -> true
           | _ -> false)) pa pb in
    let decl_ok =
      (not same_n) ||
      Stdlib.List.for_all2 (fun a b ->
          match a.root, b.root with
          | Some r, Some r' -> (not (Recase.node_simb r r')) || Recase.decl_exactb r r'
          | _ -> true) pa pb in
    let dot_ok =
      Stdlib.List.for_all (fun a -> match a.root with Some r -> Recase.dot_ok r | None -> true) (pa @ pb) in
    let part l = Stdlib.String.concat "%" (Stdlib.List.map (fun p -> p.part) l) in
    (if sim_ok then "" else "MODEL-NOT-SIM ") ^ (if decl_ok then "" else "MODEL-DECL-NOT-EXACT ") ^
    (if dot_ok then "" else "MODEL-DOT-NOT-OK ") ^ part pa ^ "@Q@" ^ aa ^ "@P@" ^ part pb ^ "@Q@" ^ ab
  | _ -> "BADCASE"
