(* E-parse / outline, model side (C12).
   input : "<ndiags> <tree dump>" as printed by harness/src/eng_outline.rs before the '#'
           (or "X ..." when the real lexer/parser did not return: nothing to model)
   output: "<input>#<canonical outline>" -- the same line the harness prints.
   outline  = [sym,sym,...]
   sym      = name|detail|kind|sl:sc:el:ec|sl:sc:el:ec|children
   name     = code points joined by '.', "-" when empty;  detail = "~" (None) or like name
   children = "~" (None) or an outline *)
open Driver_common
open Lexer
open Outline

let cps (l : coq_N list) : string = if l = [] then "-" else cps_of_str l

let show_range (r : range) : string =
  Printf.sprintf "%d:%d:%d:%d" (int_of_n r.rstart.pline) (int_of_n r.rstart.pcol)
    (int_of_n r.rend.pline) (int_of_n r.rend.pcol)

let rec show_sym (d : dsym) : string =
  Stdlib.String.concat "|" [
    cps d.ds_name;
    (match d.ds_detail with None -> "~" | Some s -> cps s);
    string_of_int (int_of_n d.ds_kind);
    show_range d.ds_range;
    show_range d.ds_sel;
    (match d.ds_children with None -> "~" | Some l -> show_list l) ]
and show_list (l : dsym list) : string =
  "[" ^ Stdlib.String.concat "," (Stdlib.List.map show_sym l) ^ "]"

let run_case (line : string) : string =
  if line <> "" && line.[0] = 'X' then line ^ "#"
  else
    let k = Stdlib.String.index line ' ' in
    let dump = Stdlib.String.sub line (k + 1) (Stdlib.String.length line - k - 1) in
    let root = Tree_io.node_of_string dump in
    line ^ "#" ^ (match outline_run root with Some l -> show_list l | None -> "MODEL-PANIC unwrap of children")
