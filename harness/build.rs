// Discovers engines: every src/eng_<name>.rs must define `pub fn run_case(line: &str) -> String`.
use std::{env, fs, path::Path};
fn main() {
    let mut names: Vec<String> = fs::read_dir("src").unwrap()
        .filter_map(|e| e.ok())
        .filter_map(|e| e.file_name().into_string().ok())
        .filter(|n| n.starts_with("eng_") && n.ends_with(".rs"))
        .map(|n| n[4..n.len() - 3].to_string())
        .collect();
    names.sort();
    let src = env::var("CARGO_MANIFEST_DIR").unwrap();
    let mut s = String::new();
    for n in &names {
        s += &format!("#[path = \"{}/src/eng_{}.rs\"] pub mod eng_{};\n", src, n, n);
    }
    s += "pub fn dispatch(engine: &str) -> Option<fn(&str) -> String> {\n    match engine {\n";
    for n in &names {
        s += &format!("        \"{}\" => Some(eng_{}::run_case),\n", n, n);
    }
    s += "        _ => None,\n    }\n}\n";
    fs::write(Path::new(&env::var("OUT_DIR").unwrap()).join("engines.rs"), s).unwrap();
    // node kinds in the order of the `impl IAstNode for X` blocks of /repo/src/parser/ast.rs
    // (the same order translator T5 uses for Gen/AstKinds.v)
    let ast = fs::read_to_string("/repo/src/parser/ast.rs").unwrap();
    let mut kinds = Vec::new();
    for part in ast.split("impl IAstNode for ").skip(1) {
        let name: String = part.chars().take_while(|c| c.is_alphanumeric() || *c == '_').collect();
        kinds.push(format!("\"{}\"", name));
    }
    fs::write(Path::new(&env::var("OUT_DIR").unwrap()).join("ast_kinds.rs"), format!("[{}]", kinds.join(", "))).unwrap();
    println!("cargo:rerun-if-changed=/repo/src/parser/ast.rs");
    println!("cargo:rerun-if-changed=src");
    println!("cargo:rustc-check-cfg=cfg(gold_lsp_verif)");
}
