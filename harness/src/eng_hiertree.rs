//! E-hiertree (C13 at tree level, several documents): case = `<stem>~<text cps>;<stem>~<text cps>;...`
//!   (anything after '@' is ignored; stems are plain [A-Za-z0-9_] file names, pairwise distinct ignoring case)
//!   -> every text written as <stem>.god into a temp workspace; each text lexed + parsed by the real lexer / parse_gold
//!      (tree dump; positions = start / middle / end of EVERY identifier token)
//!   -> ProjectManager::new + index_files + the class tree built as main_loop does (build_tree_parallel, chunk 15 000,
//!      7 workers)
//!   -> phase A: prepare_type_hierarchy at every position of every file (this analyses every document in full, so the
//!      walkers of phase B find the tables of the full annotation in the document infos);
//!      phase B: type_hierarchy_supertypes / _subtypes for every position whose prepare gave exactly one item.
//! result: "<stem cps>~<dump>|...@<l:c,l:c,...>|...#<answers of file 1>|<answers of file 2>|..."
//!   answers of a file = one per position joined by ';';  answer = P<prep>S<sup>B<sub>
//!   prep / sup / sub = `ERR` | `!` (panic) | `-` (no item) | items joined by ',' (sup / sub sorted: the children lists
//!                      of the class tree are in the builder's arrival order) ; sup / sub = `~` when not asked
//!   item = <k>/<name cps>/<stem cps of the item's uri>/sl:sc:el:ec/sl:sc:el:ec   (selection range / range),
//!          k = c (CLASS) f (FUNCTION) v (FIELD) o (anything else)
use std::path::PathBuf;
use std::sync::atomic::{AtomicUsize, Ordering};

use lsp_types::{SymbolKind, TypeHierarchyItem, Url};

use crate::common::{cps_to_string, string_to_cps};
use crate::lexer::tokens::TokenType;
use crate::lexer::GoldLexer;
use crate::manager::data_structs::ProjectManagerError;
use crate::manager::ProjectManager;
use crate::parser::parse_gold;
use crate::threadpool::ThreadPool;
use crate::treedump::dump_tree;
use crate::utils::{ILoggerV2, LogLevel, LogType, Position};

#[derive(Debug, Clone)]
struct SilentLogger;
impl ILoggerV2 for SilentLogger {
    fn log_error(&self, _msg: &str) {}
    fn log_warning(&self, _msg: &str) {}
    fn log_info(&self, _msg: &str) {}
    fn log(&self, _log_type: LogType, _level: LogLevel, _msg: &str) {}
    fn clone_box(&self) -> Box<dyn ILoggerV2> { Box::new(SilentLogger) }
    fn clone_box_with_appended_prefix(&self, _prefix: &str) -> Box<dyn ILoggerV2> { Box::new(SilentLogger) }
    fn append_prefix(&mut self, _prefix: &str) {}
}

static COUNTER: AtomicUsize = AtomicUsize::new(0);
struct TmpDir(PathBuf);
impl TmpDir {
    fn new() -> TmpDir {
        let n = COUNTER.fetch_add(1, Ordering::SeqCst);
        let p = std::env::temp_dir().join(format!("goldverif-hiertree-{}-{}", std::process::id(), n));
        let _ = std::fs::remove_dir_all(&p);
        std::fs::create_dir_all(&p).unwrap();
        TmpDir(p)
    }
}
impl Drop for TmpDir { fn drop(&mut self) { let _ = std::fs::remove_dir_all(&self.0); } }

fn cps(s: &str) -> String { if s.is_empty() { "-".to_string() } else { string_to_cps(s) } }
fn rng(r: &lsp_types::Range) -> String { format!("{}:{}:{}:{}", r.start.line, r.start.character, r.end.line, r.end.character) }

fn stem_of(uri: &Url) -> String {
    uri.to_file_path().ok()
        .and_then(|p| p.file_stem().map(|s| s.to_string_lossy().to_string()))
        .unwrap_or_else(|| "?".to_string())
}

fn item(it: &TypeHierarchyItem) -> String {
    let k = if it.kind == SymbolKind::CLASS { "c" } else if it.kind == SymbolKind::FUNCTION { "f" }
            else if it.kind == SymbolKind::FIELD { "v" } else { "o" };
    format!("{}/{}/{}/{}/{}", k, cps(&it.name), cps(&stem_of(&it.uri)), rng(&it.selection_range), rng(&it.range))
}

fn items(r: &Result<Vec<TypeHierarchyItem>, ProjectManagerError>, sort: bool) -> String {
    match r {
        Err(_) => "ERR".to_string(),
        Ok(v) => {
            if v.is_empty() { return "-".to_string(); }
            let mut s: Vec<String> = v.iter().map(item).collect();
            if sort { s.sort(); }
            s.join(",")
        }
    }
}

fn run(files: Vec<(String, String)>) -> String {
    let dir = TmpDir::new();
    let root = std::fs::canonicalize(&dir.0).unwrap();
    let mut dumps: Vec<String> = Vec::new();
    let mut poss: Vec<Vec<(usize, usize)>> = Vec::new();
    for (stem, text) in files.iter() {
        std::fs::write(root.join(format!("{}.god", stem)), text.as_bytes()).unwrap();
        let mut lexer = GoldLexer::new();
        let (toks, _errs) = lexer.lex(text);
        let mut ps: Vec<(usize, usize)> = Vec::new();
        for t in toks.iter() {
            if t.token_type == TokenType::Identifier {
                let (l, a, b) = (t.range.start.line, t.range.start.character, t.range.end.character);
                for c in [a, (a + b) / 2, b] { if !ps.contains(&(l, c)) { ps.push((l, c)); } }
            }
        }
        let ((_rest, tree), _diags) = parse_gold(&toks);
        dumps.push(format!("{}~{}", cps(stem), dump_tree(tree.as_ref())));
        poss.push(ps);
    }
    let root_uri = Url::from_file_path(&root).unwrap();
    let mut pm = match ProjectManager::new(Some(root_uri), Box::new(SilentLogger)) {
        Ok(pm) => pm,
        Err(e) => return format!("X cannot create the project manager {}#", e.msg.replace('#', " ")),
    };
    pm.index_files();
    {
        // as main_loop: the pool of 7 workers, chunks of 15 000 files
        let pool = ThreadPool::new(7, Box::new(SilentLogger));
        pm.entity_tree_service.build_tree_parallel(&pm.doc_service, &pool);
        drop(pool);
    }
    // phase A
    let mut prepared: Vec<Vec<Result<Result<Vec<TypeHierarchyItem>, ProjectManagerError>, ()>>> = Vec::new();
    for (k, (stem, _)) in files.iter().enumerate() {
        let uri = Url::from_file_path(root.join(format!("{}.god", stem))).unwrap();
        let mut v = Vec::new();
        for (l, c) in poss[k].iter() {
            let pos = Position::new(*l, *c);
            let r = std::panic::catch_unwind(std::panic::AssertUnwindSafe(|| pm.prepare_type_hierarchy(&uri, &pos)));
            v.push(r.map_err(|_| ()));
        }
        prepared.push(v);
    }
    // phase B
    let mut answers: Vec<String> = Vec::new();
    for v in prepared.iter() {
        let mut out: Vec<String> = Vec::new();
        for r in v.iter() {
            let (p, s, b) = match r {
                Err(()) => ("!".to_string(), "~".to_string(), "~".to_string()),
                Ok(pr) => {
                    let p = items(pr, false);
                    match pr {
                        Ok(its) if its.len() == 1 => {
                            let it = its[0].clone();
                            let s = std::panic::catch_unwind(std::panic::AssertUnwindSafe(|| items(&pm.type_hierarchy_supertypes(&it), true)))
                                .unwrap_or_else(|_| "!".to_string());
                            let b = std::panic::catch_unwind(std::panic::AssertUnwindSafe(|| items(&pm.type_hierarchy_subtypes(&it), true)))
                                .unwrap_or_else(|_| "!".to_string());
                            (p, s, b)
                        }
                        _ => (p, "~".to_string(), "~".to_string()),
                    }
                }
            };
            out.push(format!("P{}S{}B{}", p, s, b));
        }
        answers.push(out.join(";"));
    }
    drop(dir);
    format!("{}@{}#{}", dumps.join("|"),
            poss.iter().map(|ps| ps.iter().map(|(l, c)| format!("{}:{}", l, c)).collect::<Vec<_>>().join(",")).collect::<Vec<_>>().join("|"),
            answers.join("|"))
}

pub fn run_case(line: &str) -> String {
    let body = line.split('@').next().unwrap_or("").trim().to_string();
    let mut files: Vec<(String, String)> = Vec::new();
    for f in body.split(';').filter(|s| !s.is_empty()) {
        let (stem, text) = match f.split_once('~') { Some(x) => x, None => return "X bad case#".to_string() };
        if stem.is_empty() || !stem.chars().all(|c| c.is_ascii_alphanumeric() || c == '_') { return "X bad stem#".to_string(); }
        files.push((stem.to_string(), cps_to_string(text.trim())));
    }
    let h = std::thread::Builder::new().stack_size(256 << 20).spawn(move || run(files)).unwrap();
    match h.join() {
        Ok(s) => s,
        Err(_) => "X parse-or-setup-panic#".to_string(),
    }
}
