//! E-symtab: drives SymbolTable / ISymbolTable with an operation sequence.
//! case:  <n>;<op>,<op>,...   op = I<j>:<id> | G<j>:<id> | W<j>:<id> | S<j>:<id> | A<j>:<id> | T<j> | C<j> | E<j>:<id>
//! result: one observation per op joined by ';', an observation is [cls|id|tag,...]
use std::sync::{Arc, Mutex};
use crate::analyzers_v2::symbol_table::{ISymbolTable, SymbolInfo, SymbolTable, SymbolType};

fn o_sym(cls: &str, s: &SymbolInfo) -> String {
    format!("{}|{}|{}", cls, s.id, s.type_str.clone().unwrap_or_default())
}

pub fn run_case(line: &str) -> String {
    let (n, ops) = line.split_once(';').unwrap();
    let n: usize = n.parse().unwrap();
    // build the chain: scope j's parent is scope j+1
    let mut tabs: Vec<Arc<Mutex<dyn ISymbolTable>>> = Vec::new();
    let mut prev: Option<Arc<Mutex<dyn ISymbolTable>>> = None;
    for j in (0..n).rev() {
        let mut t = SymbolTable::new();
        t.for_class_or_module = Some(format!("C{}", j));
        if let Some(p) = prev.take() { t.set_parent_symbol_table(p); }
        let a: Arc<Mutex<dyn ISymbolTable>> = Arc::new(Mutex::new(t));
        prev = Some(a.clone());
        tabs.push(a);
    }
    tabs.reverse();
    let mut outs: Vec<String> = Vec::new();
    let mut tag: usize = 0;
    for op in ops.split(',').filter(|s| !s.is_empty()) {
        let kind = op.as_bytes()[0] as char;
        let rest = &op[1..];
        let (j, id) = match rest.split_once(':') { Some((j, id)) => (j, id), None => (rest, "") };
        let j: usize = j.parse().unwrap();
        let t = &tabs[j];
        let o: Vec<String> = match kind {
            'I' => {
                let mut info = SymbolInfo::new(id.to_string(), SymbolType::Field);
                info.type_str = Some(tag.to_string());
                t.lock().unwrap().insert_symbol_info(id, info);
                vec![]
            }
            'G' => t.lock().unwrap().get_symbol_info(id).iter().map(|s| o_sym("", s)).collect(),
            'W' => t.lock().unwrap().search_symbol_info_wparent(id).iter().map(|(c, s)| o_sym(c, s)).collect(),
            'S' => t.lock().unwrap().search_symbol_info(id).iter().map(|(c, s)| o_sym(c, s)).collect(),
            'A' => t.lock().unwrap().search_all_symbol_info(id).iter().map(|(c, s)| o_sym(c, s)).collect(),
            'T' => t.lock().unwrap().iter_symbols().map(|s| o_sym("", s)).collect(),
            'C' => t.lock().unwrap().collect_unique_symbols_w_parents().iter().map(|s| o_sym("", s)).collect(),
            'E' => if t.lock().unwrap().identifier_exists(id) { vec!["||1".to_string()] } else { vec![] },
            _ => panic!("bad op"),
        };
        tag += 1;
        outs.push(format!("[{}]", o.join(",")));
    }
    outs.join(";")
}
