//! E-index: drives DocumentService / ProjectManager (workspace index) with a directory tree and a history.
//!
//! case:   <root>;<tree>;<op>;<op>;...
//!   root  = `-` (no workspace root) | `/` (the scratch top directory) | `/a/b` (a directory below it)
//!   tree  = entries of the scratch top directory, comma separated; entry = `name` (file) | `name(entries)` (dir)
//!   names are over [A-Za-z0-9_.~]; paths are `/`-prefixed, `/`-separated, relative to the scratch top;
//!   `~1`..`~5` stand for a space, `%`, `#`, `日` and `+` (caseless characters that a URI percent-encodes or that are
//!   special in one): the harness decodes them before touching the file system or the server and encodes them again
//!   in every path it reports, so that the model sees plain two-character names; `~a`/`~A` .. `~d`/`~D` stand for
//!   é/É, ü/Ü, ж/Ж, ω/Ω (cased letters outside ASCII: a class must be found under either case of them too)
//!   op    = F:<path>            create a file (and the directories above it)
//!         | R                   ProjectManager::index_files
//!         | C:<path>:<version>  notify_document_changed with text `class V<version> (aObject)`
//!         | P:<path>            generate_document_symbols (get_parsed_document: fills `saved`)
//!         | S:<path>            notify_document_saved (reset_all_data + re-index)
//!         | X:<path>            doc_service.notify_document_closed
//!         | L:<name>            doc_service.get_uri_for_class
//!         | U:<path>            doc_service.get_document_info
//!         | N                   doc_service.count_files
//! result: one observation per op joined by `;`, observation = `<answer>|<dump>`
//!   answer = `` | `PANIC` | path or `-` (L) | `id.opened.saved` (U) | number (N)
//!   dump   = every entry of the path map, sorted by path: `path=id.opened.saved` joined by `,`
//!   id     = record identity (Arc pointer) as a small integer by order of first appearance in the output
//!   opened = `-` or the version of the in-editor text; saved = 0/1
use std::collections::HashMap;
use std::fs;
use std::panic::{catch_unwind, AssertUnwindSafe};
use std::path::{Path, PathBuf};
use std::sync::atomic::{AtomicUsize, Ordering};
use std::sync::{Arc, RwLock};

use lsp_types::Url;

use crate::manager::data_structs::DocumentInfo;
use crate::manager::ProjectManager;
use crate::threadpool::ThreadPool;
use crate::utils::{ILoggerV2, LogLevel, LogType};

#[derive(Debug, Clone)]
struct SilentLogger;
impl ILoggerV2 for SilentLogger {
    fn log_error(&self, _msg: &str) {}
    fn log_warning(&self, _msg: &str) {}
    fn log_info(&self, _msg: &str) {}
    fn log(&self, _log_type: LogType, _level: LogLevel, _msg: &str) {}
    fn clone_box(&self) -> Box<dyn ILoggerV2> { Box::new(SilentLogger) }
    fn clone_box_with_appended_prefix(&self, _prefix: &str) -> Box<dyn ILoggerV2> { Box::new(SilentLogger) }
    fn append_prefix(&mut self, _prefix: &str) {}
}

static COUNTER: AtomicUsize = AtomicUsize::new(0);

/// scratch directory removed when dropped (also during unwinding)
struct Scratch(PathBuf);
impl Drop for Scratch {
    fn drop(&mut self) { let _ = fs::remove_dir_all(&self.0); }
}

/// a symbolic link removed when dropped
struct Scratch2(PathBuf);
impl Drop for Scratch2 {
    fn drop(&mut self) { let _ = fs::remove_file(&self.0); }
}

/// parse `a,b(c,d()),e` starting at *i; stops at `)` or end of input
fn materialise(dir: &Path, s: &[u8], i: &mut usize) {
    loop {
        let start = *i;
        while *i < s.len() && s[*i] != b',' && s[*i] != b'(' && s[*i] != b')' { *i += 1; }
        let name = decode(std::str::from_utf8(&s[start..*i]).unwrap());
        let name = name.as_str();
        if *i < s.len() && s[*i] == b'(' {
            let d = dir.join(name);
            fs::create_dir(&d).unwrap();
            *i += 1;
            materialise(&d, s, i);
            assert!(*i < s.len() && s[*i] == b')', "unbalanced tree");
            *i += 1;
        } else if !name.is_empty() {
            write_file(&dir.join(name));
        }
        if *i < s.len() && s[*i] == b',' { *i += 1; continue; }
        break;
    }
}

/// file content: a small valid Gold class whose name differs in letter case from the file stem
fn write_file(p: &Path) {
    let stem = p.file_stem().and_then(|s| s.to_str()).unwrap_or("x");
    let cls: String = stem.chars().filter(|c| c.is_ascii_alphanumeric() || *c == '_')
        .enumerate().map(|(k, c)| if k % 2 == 0 { c.to_ascii_uppercase() } else { c.to_ascii_lowercase() }).collect();
    let _ = fs::write(p, format!("class a{} (aObject)\n", cls));
}

// ~a/~A .. ~d/~D: cased non-ASCII letters with a simple one-to-one case mapping; the escape's own ASCII letter case
// mirrors the letter's case, so ASCII upper-casing of the model's name = str::to_uppercase of the real name
const ESCAPES: [(&str, &str); 13] = [("~1", " "), ("~2", "%"), ("~3", "#"), ("~4", "日"), ("~5", "+"),
    ("~a", "é"), ("~A", "É"), ("~b", "ü"), ("~B", "Ü"), ("~c", "ж"), ("~C", "Ж"), ("~d", "ω"), ("~D", "Ω")];

fn decode(s: &str) -> String {
    let mut r = s.to_string();
    for (e, c) in ESCAPES.iter() { r = r.replace(e, c); }
    r
}

fn encode(s: &str) -> String {
    let mut r = s.to_string();
    for (e, c) in ESCAPES.iter() { r = r.replace(c, e); }
    r
}

fn abs(top: &Path, rel: &str) -> PathBuf {
    let mut p = top.to_path_buf();
    for c in rel.split('/').filter(|c| !c.is_empty()) { p.push(decode(c)); }
    p
}

fn rel(top: &str, key: &str) -> String {
    match key.strip_prefix(top) {
        Some("") => "/".to_string(),
        Some(r) if r.starts_with('/') => encode(r),
        _ => format!("!{}", key),
    }
}

struct Ids {
    seen: Vec<Arc<RwLock<DocumentInfo>>>,   // kept alive so that an address is never reused
}
impl Ids {
    fn id(&mut self, a: &Arc<RwLock<DocumentInfo>>) -> usize {
        for (k, b) in self.seen.iter().enumerate() {
            if Arc::ptr_eq(a, b) { return k; }
        }
        self.seen.push(a.clone());
        self.seen.len() - 1
    }
    fn show(&mut self, a: &Arc<RwLock<DocumentInfo>>) -> String {
        let id = self.id(a);
        let lock = a.read().unwrap();
        let opened = match lock.get_opened_document() {
            Some(d) => {
                let d = d.lock().unwrap();
                match &d.entity_info {
                    Some(e) => { let s = e.id.to_string(); s.strip_prefix('V').map(|v| v.to_string()).unwrap_or(format!("?{}", s)) }
                    None => "?".to_string(),
                }
            }
            None => "-".to_string(),
        };
        let saved = if lock.get_saved_document().is_some() { 1 } else { 0 };
        format!("{}.{}.{}", id, opened, saved)
    }
}

pub fn run_case(line: &str) -> String {
    // an EMPTY first op (`root;tree;;op;...`) means: the client names the workspace root and every document through a
    // symbolic link to the scratch directory (model and oracle skip empty ops: nothing observable may change)
    let via_link = line.splitn(3, ';').nth(2).map(|r| r.starts_with(';')).unwrap_or(false);
    let mut parts = line.split(';');
    let root = parts.next().unwrap_or("-");
    let tree = parts.next().unwrap_or("");
    let ops: Vec<&str> = parts.filter(|s| !s.is_empty()).collect();

    let n = COUNTER.fetch_add(1, Ordering::SeqCst);
    let base = std::env::temp_dir().join(format!("goldverif-index-{}-{}", std::process::id(), n));
    let _ = fs::remove_dir_all(&base);
    fs::create_dir_all(&base).unwrap();
    let scratch = Scratch(base.clone());
    let top = fs::canonicalize(&scratch.0).unwrap();
    let top_s = top.to_string_lossy().to_string();
    let mut i = 0usize;
    materialise(&top, tree.as_bytes(), &mut i);
    assert!(i == tree.len(), "unbalanced tree");

    // what the client sees as the top directory
    let link = base.with_file_name(format!("{}-link", base.file_name().unwrap().to_string_lossy()));
    let _link_guard = if via_link {
        let _ = fs::remove_file(&link);
        std::os::unix::fs::symlink(&top, &link).unwrap();
        Some(Scratch2(link.clone()))
    } else { None };
    let ctop: PathBuf = if via_link { link.clone() } else { top.clone() };
    let root_uri = if root == "-" { None } else { Some(Url::from_file_path(abs(&ctop, root)).unwrap()) };
    let mut pm = ProjectManager::new(root_uri, Box::new(SilentLogger)).unwrap();
    let pool = ThreadPool::new(1, Box::new(SilentLogger));
    let mut ids = Ids { seen: Vec::new() };
    let mut outs: Vec<String> = Vec::new();

    for op in ops {
        let mut f = op.splitn(3, ':');
        let kind = f.next().unwrap();
        let a1 = f.next().unwrap_or("");
        let a2 = f.next().unwrap_or("");
        let uri = || Url::from_file_path(abs(&ctop, a1)).unwrap();
        let answer: Result<String, _> = catch_unwind(AssertUnwindSafe(|| match kind {
            "F" => {
                let p = abs(&top, a1);
                if let Some(parent) = p.parent() { let _ = fs::create_dir_all(parent); }
                if !p.exists() { write_file(&p); }
                String::new()
            }
            "R" => { pm.index_files(); String::new() }
            "C" => {
                let text = format!("class V{} (aObject)\n", a2);
                match pm.notify_document_changed(&uri(), &text, &pool) { Ok(()) => String::new(), Err(_) => "ERR".to_string() }
            }
            "P" => match pm.generate_document_symbols(&uri()) { Ok(_) => String::new(), Err(_) => "ERR".to_string() },
            "S" => match pm.notify_document_saved(&uri(), &pool) { Ok(()) => String::new(), Err(_) => "ERR".to_string() },
            "X" => { pm.doc_service.notify_document_closed(&uri()); String::new() }
            "L" => match pm.doc_service.get_uri_for_class(&decode(a1)) {
                Ok(u) => match u.to_file_path() { Ok(p) => rel(&top_s, &p.to_string_lossy()), Err(_) => format!("!{}", u) },
                Err(_) => "-".to_string(),
            },
            "U" => match pm.doc_service.get_document_info(&uri()) { Ok(d) => ids.show(&d), Err(_) => "ERR".to_string() },
            "N" => pm.doc_service.count_files().to_string(),
            _ => panic!("bad op {}", op),
        }));
        let answer = answer.unwrap_or_else(|_| "PANIC".to_string());
        // dump of the path map, sorted by (relative) path
        let map = pm.doc_service.get_doc_info_mapping();
        let mut entries: Vec<(String, Arc<RwLock<DocumentInfo>>)> =
            map.read().unwrap().iter().map(|(k, v)| (rel(&top_s, k), v.clone())).collect();
        entries.sort_by(|a, b| a.0.cmp(&b.0));
        let dump: Vec<String> = entries.iter().map(|(k, v)| format!("{}={}", k, ids.show(v))).collect();
        outs.push(format!("{}|{}", answer, dump.join(",")));
    }
    drop(pm);
    drop(pool);
    drop(scratch);
    outs.join(";")
}
