//! E-pool: runs one scenario against the real `ThreadPool` and prints the visible event log.
//!
//! case:   <n>;<drop>;<pace>;<job>,<job>,...[;u]
//!   ;u     the pool is not dropped by `drop(pool)` but by the UNWINDING of its owner: after the last submission the
//!          owner thread panics (as main_loop does on a malformed message) and the pool goes out of scope while
//!          `thread::panicking()`; D is logged just before the panic, E once the unwinding has dropped the pool
//!   n      pool size (ThreadPool::new(n, ..))
//!   drop   number of jobs submitted before the pool is dropped (jobs after that are not submitted)
//!   pace   0 = submit back to back; k > 0 = seed of a small LCG that inserts yields / spins /
//!          50..300 us sleeps between submissions ("random timing")
//!   job    i            returns at once
//!          s<ms>        sleeps ms milliseconds
//!          b<g>:<m>     rendezvous: blocks until m jobs of group g are inside it at the same time
//!          p            panics (not used by the C20 check: outside the property's quantifier;
//!                       kept to reproduce what a panicking job does to the pool)
//!   job ids are positions in the list; even ids go through `execute`, odd ids through `execute_req`.
//!
//! result: <event>,<event>,...;x=<exited>/<seen>
//!   S<j> submit (logged by the owner just BEFORE execute), B<w>:<j> / F<w>:<j> first / last thing
//!   the closure does (w = worker thread, numbered in order of first appearance), D just before
//!   `drop(pool)`, E just after.  exited = worker threads (among the `seen` ones that ran a job)
//!   whose thread-locals had been destroyed when `drop` returned, i.e. that had really exited.
//!   HANG <partial log>      the scenario did not complete within the watchdog deadline
//!   BTIMEOUT <log>          a rendezvous gave up waiting: its m jobs never ran at the same time
//!   PANIC <msg>             the owner thread panicked (execute or drop)
use std::cell::RefCell;
use std::sync::atomic::{AtomicBool, AtomicUsize, Ordering};
use std::sync::{mpsc, Arc, Condvar, Mutex};
use std::thread::{self, ThreadId};
use std::time::{Duration, Instant};

use crate::threadpool::ThreadPool;
use crate::utils::{ILoggerV2, LogLevel, LogType};

#[derive(Debug, Clone)]
struct SilentLogger;
impl ILoggerV2 for SilentLogger {
    fn log_error(&self, _msg: &str) {}
    fn log_warning(&self, _msg: &str) {}
    fn log_info(&self, _msg: &str) {}
    fn log(&self, _log_type: LogType, _level: LogLevel, _msg: &str) {}
    fn clone_box(&self) -> Box<dyn ILoggerV2> { Box::new(SilentLogger) }
    fn clone_box_with_appended_prefix(&self, _prefix: &str) -> Box<dyn ILoggerV2> { Box::new(SilentLogger) }
    fn append_prefix(&mut self, _prefix: &str) {}
}

struct Log {
    events: Vec<String>,
    tids: Vec<ThreadId>,
}
impl Log {
    fn worker(&mut self, t: ThreadId) -> usize {
        match self.tids.iter().position(|x| *x == t) {
            Some(i) => i,
            None => { self.tids.push(t); self.tids.len() - 1 }
        }
    }
}

/// Rendezvous of `need` jobs; waits give up after `timeout` (and make the whole group give up),
/// so that a pool that serialises its jobs shows up as BTIMEOUT and leftover threads never block
/// for ever.
struct Rendezvous {
    need: usize,
    arrived: Mutex<usize>,
    cv: Condvar,
    failed: AtomicBool,
}
impl Rendezvous {
    fn wait(&self, timeout: Duration) -> bool {
        let mut g = self.arrived.lock().unwrap();
        *g += 1;
        if *g >= self.need {
            self.cv.notify_all();
            return true;
        }
        let start = Instant::now();
        while *g < self.need {
            if self.failed.load(Ordering::SeqCst) { return false; }
            let el = start.elapsed();
            if el >= timeout {
                self.failed.store(true, Ordering::SeqCst);
                self.cv.notify_all();
                return false;
            }
            let (g2, _) = self.cv.wait_timeout(g, timeout - el).unwrap();
            g = g2;
        }
        true
    }
}

struct ExitGuard(Arc<AtomicUsize>);
impl Drop for ExitGuard {
    fn drop(&mut self) { self.0.fetch_add(1, Ordering::SeqCst); }
}
thread_local! {
    static EXIT_GUARD: RefCell<Option<ExitGuard>> = RefCell::new(None);
}

/// panic payload of the owner thread in the `;u` scenarios
struct UnwindDrop;

#[derive(Clone)]
enum Kind { Instant, Sleep(u64), Meet(Arc<Rendezvous>), Panic }

fn env_ms(name: &str, default: u64) -> Duration {
    Duration::from_millis(std::env::var(name).ok().and_then(|v| v.parse().ok()).unwrap_or(default))
}

fn parse_jobs(s: &str) -> Vec<Kind> {
    let mut groups: Vec<(String, Arc<Rendezvous>)> = Vec::new();
    let mut out = Vec::new();
    for j in s.split(',').filter(|x| !x.is_empty()) {
        let k = match j.as_bytes()[0] as char {
            'i' => Kind::Instant,
            's' => Kind::Sleep(j[1..].parse().unwrap()),
            'p' => Kind::Panic,
            'b' => {
                let (g, m) = j[1..].split_once(':').unwrap();
                let m: usize = m.parse().unwrap();
                let r = match groups.iter().find(|(name, _)| name == g) {
                    Some((_, r)) => r.clone(),
                    None => {
                        let r = Arc::new(Rendezvous { need: m, arrived: Mutex::new(0), cv: Condvar::new(),
                                                      failed: AtomicBool::new(false) });
                        groups.push((g.to_string(), r.clone()));
                        r
                    }
                };
                Kind::Meet(r)
            }
            _ => panic!("bad job kind"),
        };
        out.push(k);
    }
    out
}

pub fn run_case(line: &str) -> String {
    let mut it = line.splitn(5, ';');
    let n: usize = it.next().unwrap().parse().unwrap();
    let drop_at: usize = it.next().unwrap().parse().unwrap();
    let pace: u64 = it.next().unwrap().parse().unwrap();
    let jobs = parse_jobs(it.next().unwrap_or(""));
    let unwind = it.next() == Some("u");
    let watchdog = env_ms("VPOOL_WATCHDOG_MS", 15000);
    let meet_timeout = env_ms("VPOOL_MEET_MS", 8000);

    let log = Arc::new(Mutex::new(Log { events: Vec::new(), tids: Vec::new() }));
    let exited = Arc::new(AtomicUsize::new(0));
    let gave_up = Arc::new(AtomicBool::new(false));
    let (done_tx, done_rx) = mpsc::channel::<Result<(usize, usize), String>>();

    let (log_s, exited_s, gave_up_s) = (log.clone(), exited.clone(), gave_up.clone());
    thread::spawn(move || {
        let r = std::panic::catch_unwind(std::panic::AssertUnwindSafe(|| {
            let pool = ThreadPool::new(n, Box::new(SilentLogger));
            let mut rng = pace;
            for (id, kind) in jobs.iter().enumerate().take(drop_at) {
                if pace > 0 {
                    rng = rng.wrapping_mul(6364136223846793005).wrapping_add(1442695040888963407);
                    match (rng >> 33) % 4 {
                        1 => thread::yield_now(),
                        2 => thread::sleep(Duration::from_micros(50 + (rng >> 40) % 250)),
                        3 => { let mut x = 0u64; for i in 0..((rng >> 40) % 2000) { x = x.wrapping_add(i); } std::hint::black_box(x); }
                        _ => {}
                    }
                }
                log_s.lock().unwrap().events.push(format!("S{}", id));
                let (log_j, exited_j, gave_up_j, kind) = (log_s.clone(), exited_s.clone(), gave_up_s.clone(), kind.clone());
                let body = move || {
                    EXIT_GUARD.with(|g| {
                        let mut g = g.borrow_mut();
                        if g.is_none() { *g = Some(ExitGuard(exited_j)); }
                    });
                    let w = {
                        let mut l = log_j.lock().unwrap();
                        let w = l.worker(thread::current().id());
                        l.events.push(format!("B{}:{}", w, id));
                        w
                    };
                    match kind {
                        Kind::Instant => {}
                        Kind::Sleep(ms) => thread::sleep(Duration::from_millis(ms)),
                        Kind::Meet(r) => { if !r.wait(meet_timeout) { gave_up_j.store(true, Ordering::SeqCst); } }
                        Kind::Panic => panic!("job {} panics", id),
                    }
                    log_j.lock().unwrap().events.push(format!("F{}:{}", w, id));
                };
                if id % 2 == 0 { pool.execute(body); } else { pool.execute_req(body, lsp_server::RequestId::from(id as i32)); }
            }
            log_s.lock().unwrap().events.push("D".to_string());
            if unwind { std::panic::panic_any(UnwindDrop); }
            drop(pool);
            let mut l = log_s.lock().unwrap();
            l.events.push("E".to_string());
            (exited_s.load(Ordering::SeqCst), l.tids.len())
        }));
        let r = match r {
            Err(e) if e.is::<UnwindDrop>() => {
                // the unwinding has dropped the pool: this is the point where `drop` has returned
                let mut l = log_s.lock().unwrap_or_else(|p| p.into_inner());
                l.events.push("E".to_string());
                Ok((exited_s.load(Ordering::SeqCst), l.tids.len()))
            }
            other => other,
        };
        let _ = done_tx.send(r.map_err(|e| {
            if let Some(s) = e.downcast_ref::<&str>() { s.to_string() }
            else if let Some(s) = e.downcast_ref::<String>() { s.clone() }
            else { "?".to_string() }
        }));
    });

    match done_rx.recv_timeout(watchdog) {
        Ok(Ok((ex, seen))) => {
            let l = log.lock().unwrap_or_else(|p| p.into_inner());
            let evs = l.events.join(",");
            if gave_up.load(Ordering::SeqCst) { format!("BTIMEOUT {}", evs) }
            else { format!("{};x={}/{}", evs, ex, seen) }
        }
        Ok(Err(msg)) => format!("PANIC {}", msg.replace('\n', " ")),
        Err(_) => {
            let l = log.lock().unwrap_or_else(|p| p.into_inner());
            format!("HANG {}", l.events.join(","))
        }
    }
}
