//! E-recase (C17): every observable the property names, on a workspace W and on its re-cased variant W'.
//!
//! case:   <files of W>|<files of W'>|<queries>|<annotation of the check, ignored here>
//!   files   = `<Stem>=<text as code points>` joined by `;`  -> written to <tmp>/goldverif-recase-<pid>-<n>/<Stem>.god
//!   queries = `<K>,<Stem>,<line>,<col>[,<tag ignored>]` joined by `;`, the SAME positions are asked in W and W'
//!             K = D textDocument/definition | C textDocument/completion
//!               | H textDocument/prepareTypeHierarchy at the position, then typeHierarchy/supertypes and /subtypes of its item
//! For each of the two workspaces: a fresh ProjectManager (silent logger), index_files(), the class tree built as
//! main_loop builds it (build_tree_parallel on a pool), then per file, in case order, the syntax tree
//! (treedump::dump_tree of the document the manager parsed), the outline (generate_document_symbols) and the full
//! diagnostic report (generate_document_diagnostic_report); then every query in order.  Each single observation is
//! timed by a watchdog (10 s -> HANG, the rest of that workspace is HANG too); panics are caught per observation.
//!
//! result: <model input>@S@<observation>
//!   observation = <obs W>@P@<obs W'>          obs = <file part>@Q@<answers>
//!   file part   = per file `<Stem>^T<tree dump>^O<outline>^G<diagnostics>` joined by `%`
//!     outline     as eng_outline.rs prints it; diagnostics sorted, joined by `;`,
//!     d = class:sev:sl:sc:el:ec:keycps, class = RET INH PURGE NPROC NFUNC NFIELD NPARAM NLOCAL NTYPE NCONST (as eng_lints.rs),
//!         U "Unused var: <key>", D "Var name already declared", P anything else (parser messages; key = the message)
//!   answers     = one per query joined by `;`
//!     D: links in the order returned joined by `,`, link = `<Stem>:sl:sc:el:ec/tsl:tsc:tel:tec/osl:osc:oel:oec`; `-` when empty
//!     C: labels sorted, joined by `,`; `-` when empty
//!     H: `<prepare>!<supertypes>!<subtypes>`, each = items sorted joined by `,`, item = `<Name>~<Stem>~sl:sc-el:ec`,
//!        `-` when empty, `ERR` on an error, supertypes/subtypes `.` when prepare did not return exactly one item
//!     `ERR <msg>`, `PANIC <msg>`, `HANG`
//!   model input = <files of W>|<files of W'>|<answers W>@P@<answers W'>  : the model side (coq/extract/eng_recase.ml)
//!     recomputes the file parts with the extracted lexer + parser + outline + unused-variable + lint models and echoes
//!     the answers (definition / completion / hierarchy are compared W against W', implementation against itself).
use std::path::PathBuf;
use std::sync::atomic::{AtomicUsize, Ordering};
use std::sync::mpsc;
use std::time::Duration;

use lsp_types::{DocumentSymbol, SymbolKind, TypeHierarchyItem, Url};

use crate::common::{cps_to_string, string_to_cps};
use crate::manager::ProjectManager;
use crate::threadpool::ThreadPool;
use crate::treedump::dump_tree;
use crate::utils::{ILoggerV2, LogLevel, LogType, Position};

#[derive(Debug, Clone)]
struct SilentLogger;
impl ILoggerV2 for SilentLogger {
    fn log_error(&self, _msg: &str) {}
    fn log_warning(&self, _msg: &str) {}
    fn log_info(&self, _msg: &str) {}
    fn log(&self, _log_type: LogType, _level: LogLevel, _msg: &str) {}
    fn clone_box(&self) -> Box<dyn ILoggerV2> { Box::new(SilentLogger) }
    fn clone_box_with_appended_prefix(&self, _prefix: &str) -> Box<dyn ILoggerV2> { Box::new(SilentLogger) }
    fn append_prefix(&mut self, _prefix: &str) {}
}

static COUNTER: AtomicUsize = AtomicUsize::new(0);

struct TmpDir(PathBuf);
impl TmpDir {
    fn new() -> TmpDir {
        let n = COUNTER.fetch_add(1, Ordering::SeqCst);
        let p = std::env::temp_dir().join(format!("goldverif-recase-{}-{}", std::process::id(), n));
        let _ = std::fs::remove_dir_all(&p);
        std::fs::create_dir_all(&p).unwrap();
        TmpDir(p)
    }
}
impl Drop for TmpDir {
    fn drop(&mut self) { let _ = std::fs::remove_dir_all(&self.0); }
}

fn clean(s: &str) -> String {
    s.chars().map(|c| if ";|@%^!\n\r\t".contains(c) { ' ' } else { c }).collect()
}

fn cps(s: &str) -> String { if s.is_empty() { "-".to_string() } else { string_to_cps(s) } }

fn lrng(r: &lsp_types::Range) -> String {
    format!("{}:{}:{}:{}", r.start.line, r.start.character, r.end.line, r.end.character)
}

fn stem_of(u: &Url) -> String {
    match u.to_file_path() {
        Ok(p) => p.file_stem().and_then(|s| s.to_str()).unwrap_or("?").to_string(),
        Err(_) => format!("?{}", u),
    }
}

// ---- outline (as eng_outline.rs) ----
fn kind_code(k: SymbolKind) -> i64 { serde_json::to_value(k).ok().and_then(|v| v.as_i64()).unwrap_or(-1) }
fn show_sym(d: &DocumentSymbol) -> String {
    format!("{}|{}|{}|{}|{}|{}", cps(&d.name),
        match &d.detail { None => "~".to_string(), Some(s) => cps(s) },
        kind_code(d.kind), lrng(&d.range), lrng(&d.selection_range),
        match &d.children { None => "~".to_string(), Some(l) => show_list(l) })
}
fn show_list(l: &Vec<DocumentSymbol>) -> String {
    format!("[{}]", l.iter().map(show_sym).collect::<Vec<_>>().join(","))
}

// ---- diagnostics ----
fn quoted(msg: &str) -> String {
    match (msg.find('\''), msg.rfind('\'')) {
        (Some(a), Some(b)) if b > a => msg[a + 1..b].to_string(),
        _ => String::new(),
    }
}
fn classify(msg: &str) -> (&'static str, String) {
    const RET_TAIL: &str = " type should not be returned by functions, pass it as inout/var param instead";
    if let Some(t) = msg.strip_suffix(RET_TAIL) { return ("RET", t.to_string()); }
    if msg.starts_with("Method '") && msg.ends_with("' should call its inherited implem.") { return ("INH", quoted(msg)); }
    if msg.starts_with("Local tVarByteArray '") && msg.ends_with("' is not purged") { return ("PURGE", quoted(msg)); }
    if let Some(k) = msg.strip_prefix("Unused var: ") { return ("U", k.to_string()); }
    if msg == "Var name already declared" { return ("D", String::new()); }
    let c = match msg {
        "Procedure names should have capital first letter" => "NPROC",
        "Function names should have capital first letter" => "NFUNC",
        "Field names should have capital first letter" => "NFIELD",
        "Parameter names should have capital first letter" => "NPARAM",
        "Local variable names should have lowercase first letter" => "NLOCAL",
        "Type names should start with t, e.g. tSomeType" => "NTYPE",
        "Constant names should start with c, e.g. cSomeConstant" => "NCONST",
        _ => return ("P", msg.to_string()),
    };
    (c, String::new())
}
fn show_diags(items: &Vec<lsp_types::Diagnostic>) -> String {
    let mut v: Vec<String> = items.iter().map(|d| {
        let (c, key) = classify(&d.message);
        let sev = match d.severity {
            Some(lsp_types::DiagnosticSeverity::ERROR) => 1,
            Some(lsp_types::DiagnosticSeverity::WARNING) => 2,
            Some(lsp_types::DiagnosticSeverity::INFORMATION) => 3,
            Some(lsp_types::DiagnosticSeverity::HINT) => 4,
            _ => 0,
        };
        format!("{}:{}:{}:{}:{}:{}:{}", c, sev, d.range.start.line, d.range.start.character,
                d.range.end.line, d.range.end.character, cps(&key))
    }).collect();
    v.sort();
    v.join(";")
}

// ---- hierarchy ----
fn show_items(r: Result<Vec<TypeHierarchyItem>, crate::manager::data_structs::ProjectManagerError>) -> String {
    match r {
        Err(_) => "ERR".to_string(),
        Ok(items) => {
            if items.is_empty() { return "-".to_string(); }
            let mut v: Vec<String> = items.iter().map(|it| {
                let s = it.selection_range;
                format!("{}~{}~{}:{}-{}:{}", clean(&it.name), stem_of(&it.uri),
                        s.start.line, s.start.character, s.end.line, s.end.character)
            }).collect();
            v.sort();
            v.join(",")
        }
    }
}

fn answer(pm: &mut ProjectManager, kind: &str, uri: &Url, pos: &Position) -> String {
    let r = crate::common::guarded(|| match kind {
        "D" => match pm.generate_goto_definitions(uri, pos) {
            Ok(links) => {
                if links.is_empty() { return "-".to_string(); }
                links.iter().map(|l| format!("{}:{}/{}/{}", stem_of(&l.target_uri), lrng(&l.target_selection_range),
                    lrng(&l.target_range), l.origin_selection_range.as_ref().map(lrng).unwrap_or("-".to_string())))
                    .collect::<Vec<_>>().join(",")
            }
            Err(e) => format!("ERR {}", clean(&e.msg)),
        },
        "C" => match pm.generate_completion_proposals(uri, pos) {
            Ok(items) => {
                if items.is_empty() { return "-".to_string(); }
                let mut v: Vec<String> = items.iter().map(|i| clean(&i.label)).collect();
                v.sort();
                v.join(",")
            }
            Err(e) => format!("ERR {}", clean(&e.msg)),
        },
        "H" => {
            let prep = pm.prepare_type_hierarchy(uri, pos);
            let (sup, sub) = match &prep {
                Ok(items) if items.len() == 1 => (
                    show_items(pm.type_hierarchy_supertypes(&items[0])),
                    show_items(pm.type_hierarchy_subtypes(&items[0]))),
                _ => (".".to_string(), ".".to_string()),
            };
            return format!("{}!{}!{}", show_items(prep), sup, sub);
        }
        _ => "BADQUERY".to_string(),
    });
    if kind == "H" { r } else { clean(&r) }
}

fn file_part(pm: &mut ProjectManager, stem: &str, uri: &Url) -> String {
    let tree = crate::common::guarded(|| match pm.doc_service.get_parsed_document(uri, true) {
        Ok(doc) => { let d = doc.lock().unwrap(); dump_tree(d.get_ast().as_ref()) }
        Err(e) => format!("ERR {}", clean(&e.msg)),
    });
    let outline = crate::common::guarded(|| match pm.generate_document_symbols(uri) {
        Ok(l) => show_list(&l),
        Err(e) => format!("ERR {}", clean(&e.msg)),
    });
    let diags = crate::common::guarded(|| match pm.generate_document_diagnostic_report(uri) {
        Ok(r) => show_diags(&r.full_document_diagnostic_report.items),
        Err(e) => format!("ERR {}", clean(&e.msg)),
    });
    format!("{}^T{}^O{}^G{}", stem, tree, outline, diags)
}

#[derive(Clone)]
struct Query { kind: String, stem: String, line: usize, col: usize }

/// (file part, answers)
fn observe(files: &str, qs: &Vec<Query>) -> (String, String) {
    let dir = TmpDir::new();
    let mut stems: Vec<String> = Vec::new();
    for f in files.split(';').filter(|s| !s.is_empty()) {
        let (stem, cps) = match f.split_once('=') { Some(x) => x, None => return ("BADCASE".to_string(), "BADCASE".to_string()) };
        std::fs::write(dir.0.join(format!("{}.god", stem)), cps_to_string(cps).as_bytes()).unwrap();
        stems.push(stem.to_string());
    }
    let nf = stems.len();
    let nq = qs.len();
    let root = std::fs::canonicalize(&dir.0).unwrap();
    let (tx, rx) = mpsc::channel::<String>();
    let qs2 = qs.clone();
    let stems2 = stems.clone();
    let h = std::thread::Builder::new().stack_size(64 << 20).spawn(move || {
        let root_uri = Url::from_file_path(&root).unwrap();
        let mut pm = match ProjectManager::new(Some(root_uri), Box::new(SilentLogger)) {
            Ok(pm) => pm,
            Err(e) => { for _ in 0..(nf + nq) { let _ = tx.send(format!("ERR-NEW {}", clean(&e.msg))); } return; }
        };
        let started = crate::common::guarded(|| {
            pm.index_files();
            let pool = ThreadPool::new(4, Box::new(SilentLogger));
            pm.entity_tree_service.build_tree_parallel(&pm.doc_service, &pool);
            drop(pool); // joins the workers: the tree is complete
            String::new()
        });
        if !started.is_empty() { for _ in 0..(nf + nq) { let _ = tx.send(started.clone()); } return; }
        for stem in stems2.iter() {
            let uri = Url::from_file_path(root.join(format!("{}.god", stem))).unwrap();
            if tx.send(file_part(&mut pm, stem, &uri)).is_err() { return; }
        }
        for q in qs2.iter() {
            let uri = Url::from_file_path(root.join(format!("{}.god", q.stem))).unwrap();
            let pos = Position::new(q.line, q.col);
            if tx.send(answer(&mut pm, &q.kind, &uri, &pos)).is_err() { return; }
        }
    }).unwrap();
    let mut outs: Vec<String> = Vec::with_capacity(nf + nq);
    let mut hung = false;
    for _ in 0..(nf + nq) {
        if hung { outs.push("HANG".to_string()); continue; }
        match rx.recv_timeout(Duration::from_secs(10)) {
            Ok(s) => outs.push(s),
            Err(mpsc::RecvTimeoutError::Timeout) => { hung = true; outs.push("HANG".to_string()); }
            Err(mpsc::RecvTimeoutError::Disconnected) => outs.push("PANIC worker thread died".to_string()),
        }
    }
    if !hung { let _ = h.join(); }
    drop(dir);
    let fpart = outs[..nf].join("%");
    let answers = outs[nf..].join(";");
    (fpart, answers)
}

pub fn run_case(line: &str) -> String {
    let parts: Vec<&str> = line.trim_end_matches(|c| c == '\n' || c == '\r').split('|').collect();
    if parts.len() < 3 { return "BADCASE".to_string(); }
    let qs: Vec<Query> = parts[2].split(';').filter(|s| !s.is_empty()).map(|q| {
        let f: Vec<&str> = q.splitn(5, ',').collect();
        Query { kind: f[0].to_string(), stem: f[1].to_string(), line: f[2].parse().unwrap(), col: f[3].parse().unwrap() }
    }).collect();
    let (fa, aa) = observe(parts[0], &qs);
    let (fb, ab) = observe(parts[1], &qs);
    format!("{}|{}|{}@P@{}@S@{}@Q@{}@P@{}@Q@{}", parts[0], parts[1], aa, ab, fa, aa, fb, ab)
}
