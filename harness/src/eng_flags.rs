//! E-sched for C14 (engine `flags`, HOOKS build): forced schedules of the annotation-flag protocol.
//!
//! case:   <threads>/<order>/<note>|<file>;<file>;...
//!   file    = stem~deps~textcps        deps = `-` | stem+stem+... (what the walk of the file looks up; model side only)
//!   threads = <id>:<stem>:<kind>:<hook>:<n>,...   id = a | b | c, started in this order
//!             kind  d diagnostics | c completion at (0,7) | h prepareTypeHierarchy at (0,7)   (all: full analysis of <stem>)
//!             hook  0 = analyze:after_cache_check | 1 = annotate:after_publish_tree | - = never parked
//!             n     the request thread is parked at its n-th arrival at that hook (1 = its own document,
//!                   2.. = documents it analyses from inside its walk)
//!   order   = the order in which the gates are opened, e.g. `bac`
//!   note    = `-` | <stem>:<c|s|x>   a didChange (same text) / didSave / didClose fired while the threads are parked
//! Every thread is started and given time to reach its gate (or to finish, or to block on something another thread
//! holds); the notification is delivered; the gates are opened in the given order; a request that has not returned 8 s
//! after the last gate was opened is a HANG.
//! result: <id>=<ok|er|HANG|PANIC>:<same|diff|->,...   same = the answer equals the answer the same request gets alone
//!         on a fresh manager; followed by `;parked=<ids that reached their gate>;early=<ids that had returned before
//!         the first gate was opened>`
#[cfg(not(gold_lsp_verif))]
pub fn run_case(_line: &str) -> String { "NOHOOKS".to_string() }

#[cfg(gold_lsp_verif)]
pub use imp::run_case;

#[cfg(gold_lsp_verif)]
mod imp {
use std::cell::Cell;
use std::path::PathBuf;
use std::sync::atomic::{AtomicBool, AtomicUsize, Ordering};
use std::sync::{mpsc, Arc, Condvar, Mutex};
use std::time::{Duration, Instant};

use lsp_types::Url;

use crate::common::cps_to_string;
use crate::manager::ProjectManager;
use crate::threadpool::ThreadPool;
use crate::utils::{ILoggerV2, LogLevel, LogType, Position};

#[derive(Debug, Clone)]
struct Silent;
impl ILoggerV2 for Silent {
    fn log_error(&self, _m: &str) {}
    fn log_warning(&self, _m: &str) {}
    fn log_info(&self, _m: &str) {}
    fn log(&self, _t: LogType, _l: LogLevel, _m: &str) {}
    fn clone_box(&self) -> Box<dyn ILoggerV2> { Box::new(Silent) }
    fn clone_box_with_appended_prefix(&self, _p: &str) -> Box<dyn ILoggerV2> { Box::new(Silent) }
    fn append_prefix(&mut self, _p: &str) {}
}

static COUNTER: AtomicUsize = AtomicUsize::new(0);
struct TmpDir(PathBuf);
impl Drop for TmpDir { fn drop(&mut self) { let _ = std::fs::remove_dir_all(&self.0); } }

const HOOKS: [&str; 2] = ["analyze:after_cache_check", "annotate:after_publish_tree"];

thread_local! { static ROLE: Cell<usize> = Cell::new(usize::MAX); }

struct Gate {
    hook: Option<&'static str>,
    nth: usize,
    count: AtomicUsize,
    state: Mutex<(bool, bool)>,     // (parked, released)
    cv: Condvar,
    finished: AtomicBool,
}

fn install(gates: Arc<Vec<Gate>>) {
    crate::verif_hooks::install(Some(Arc::new(move |name: &'static str| {
        let role = ROLE.with(|r| r.get());
        if role >= gates.len() { return; }
        let g = &gates[role];
        if g.hook != Some(name) { return; }
        let k = g.count.fetch_add(1, Ordering::SeqCst) + 1;
        if k != g.nth { return; }
        let mut st = g.state.lock().unwrap();
        if st.1 { return; }
        st.0 = true;
        g.cv.notify_all();
        let deadline = Instant::now() + Duration::from_secs(25);
        while !st.1 {
            let now = Instant::now();
            if now >= deadline { break; }          // never leave a thread parked for good
            let (s2, _) = g.cv.wait_timeout(st, deadline - now).unwrap();
            st = s2;
        }
    })));
}

fn answer(pm: &ProjectManager, uri: &Url, kind: &str) -> Result<String, String> {
    let mut pm = pm.clone();
    match kind {
        "d" => pm.generate_document_diagnostic_report(uri).map(|r| {
            let mut v: Vec<String> = r.full_document_diagnostic_report.items.iter()
                .map(|d| format!("{}.{}.{}", d.range.start.line, d.range.start.character, d.message)).collect();
            v.sort(); v.join("/") }).map_err(|e| e.msg),
        "c" => pm.generate_completion_proposals(uri, &Position::new(0, 7)).map(|items| {
            let mut v: Vec<String> = items.iter().map(|i| i.label.clone()).collect(); v.sort(); v.join("/") }).map_err(|e| e.msg),
        "h" => pm.prepare_type_hierarchy(uri, &Position::new(0, 7)).map(|items| {
            let mut v: Vec<String> = items.iter().map(|i| i.name.clone()).collect(); v.sort(); v.join("/") }).map_err(|e| e.msg),
        _ => Err("bad kind".to_string()),
    }
}

struct World { dir: TmpDir, pm: ProjectManager }

fn world(files: &Vec<(String, String)>) -> World {
    let n = COUNTER.fetch_add(1, Ordering::SeqCst);
    let p = std::env::temp_dir().join(format!("goldverif-flags-{}-{}", std::process::id(), n));
    let _ = std::fs::remove_dir_all(&p);
    std::fs::create_dir_all(&p).unwrap();
    for (stem, text) in files { std::fs::write(p.join(format!("{}.god", stem)), text.as_bytes()).unwrap(); }
    let root = Url::from_file_path(std::fs::canonicalize(&p).unwrap()).unwrap();
    let mut pm = ProjectManager::new(Some(root), Box::new(Silent)).unwrap();
    pm.index_files();
    {
        let pool = ThreadPool::new(3, Box::new(Silent));
        pm.entity_tree_service.build_tree_parallel(&pm.doc_service, &pool);
        drop(pool);
    }
    World { dir: TmpDir(p), pm }
}

fn uri_of(w: &World, stem: &str) -> Url {
    Url::from_file_path(std::fs::canonicalize(&w.dir.0).unwrap().join(format!("{}.god", stem))).unwrap()
}

// ------------------------------------------------------------------------------------------
// `treerace:<attempts>`: the class-tree build of start-up against a type-hierarchy request.
//   build_tree_parallel keeps the Document mutex of the file it processes (if-let scrutinee) while it
//   takes the tree map's write lock; is_self_or_ancestor walks the entity nodes under that write lock;
//   generate_entity_type_hierarchy_item keeps an entity node locked while it fetches the class's symbol table,
//   which locks the file's (cached) Document.  Files aK / aC (aK) / aG (aC), one pool worker per file, every
//   worker parked at its first `entity:between_lookup_and_insert`; one is let go (must turn out to be aC's:
//   creates aC and aK), then supertypes(aC) is requested (locks node aK, wants Document aK), then a second
//   worker (aG's, when the draw is right: takes the write lock, walks aC -> aK), then the last one (aK's: holds
//   Document aK, wants the write lock).  The draw is right in 1 of 6 attempts.
// result: treerace=ok:<attempts>:<attempts with the right draw> | treerace=DEADLOCK:<attempt>
// ------------------------------------------------------------------------------------------
struct ParkAll {
    threads: Mutex<Vec<(std::thread::ThreadId, bool)>>,   // (thread, released) in order of first arrival
    cv: Condvar,
}

fn treerace(attempts: usize) -> String {
    use crate::manager::entity_tree_service::EntityTreeService;
    let files: Vec<(String, String)> = vec![
        ("aK".to_string(), "class aK\nFk : int4\n".to_string()),
        ("aC".to_string(), "class aC (aK)\nFc : int4\n".to_string()),
        ("aG".to_string(), "class aG (aC)\nFg : int4\n".to_string())];
    let mut right = 0usize;
    for attempt in 0..attempts {
        let w = world(&files);
        let mut pm = w.pm.clone();
        for (stem, _) in &files { let _ = pm.generate_document_symbols(&uri_of(&w, stem)); }   // cache the parsed copies
        let tree = EntityTreeService::new(1, Box::new(Silent));
        pm.entity_tree_service = tree.clone();
        let pk = Arc::new(ParkAll { threads: Mutex::new(Vec::new()), cv: Condvar::new() });
        let pk2 = pk.clone();
        crate::verif_hooks::install(Some(Arc::new(move |name: &'static str| {
            if name != "entity:between_lookup_and_insert" { return; }
            let me = std::thread::current().id();
            let mut g = pk2.threads.lock().unwrap();
            if g.iter().any(|(t, _)| *t == me) { return; }          // only the first arrival of a worker parks
            g.push((me, false));
            pk2.cv.notify_all();
            let deadline = Instant::now() + Duration::from_secs(20);
            loop {
                if g.iter().any(|(t, r)| *t == me && *r) { break; }
                let now = Instant::now();
                if now >= deadline { break; }
                let (g2, _) = pk2.cv.wait_timeout(g, deadline - now).unwrap();
                g = g2;
            }
        })));
        let pool = ThreadPool::new(3, Box::new(Silent));
        tree.build_tree_parallel(&pm.doc_service, &pool);
        // all three workers parked?
        let t0 = Instant::now();
        while pk.threads.lock().unwrap().len() < 3 && t0.elapsed() < Duration::from_secs(2) { std::thread::sleep(Duration::from_millis(5)); }
        let release = |k: usize| { let mut g = pk.threads.lock().unwrap(); if k < g.len() { g[k].1 = true; } pk.cv.notify_all(); };
        let release_all = || { let mut g = pk.threads.lock().unwrap(); for x in g.iter_mut() { x.1 = true; } pk.cv.notify_all(); };
        if pk.threads.lock().unwrap().len() < 3 { release_all(); drop(pool); crate::verif_hooks::install(None); continue; }
        release(0);
        std::thread::sleep(Duration::from_millis(120));
        let ok_first = match (tree.get_entity("aC"), tree.get_entity("aK"), tree.get_entity("aG")) {
            (Some(c), Some(_), None) => c.try_lock().map(|g| g.parent.is_some()).unwrap_or(false),
            _ => false,
        };
        if !ok_first { release_all(); drop(pool); crate::verif_hooks::install(None); continue; }
        // the hierarchy request
        let (tx, rx) = mpsc::channel::<bool>();
        {
            let mut pm2 = pm.clone();
            let uri = uri_of(&w, "aC");
            let _ = std::thread::Builder::new().stack_size(2 << 20).spawn(move || {
                let item = lsp_types::TypeHierarchyItem { name: "aC".to_string(), kind: lsp_types::SymbolKind::CLASS, tags: None, detail: None,
                    uri, range: lsp_types::Range::default(), selection_range: lsp_types::Range::default(), data: None };
                let r = pm2.type_hierarchy_supertypes(&item).is_ok();
                let _ = tx.send(r);
            });
        }
        std::thread::sleep(Duration::from_millis(120));
        release(1);
        std::thread::sleep(Duration::from_millis(150));
        release(2);
        release_all();
        // everything must drain: the request answers and the pool can be joined
        let (jtx, jrx) = mpsc::channel::<()>();
        let _ = std::thread::spawn(move || { drop(pool); let _ = jtx.send(()); });
        let th_ok = rx.recv_timeout(Duration::from_secs(4)).is_ok();
        let pool_ok = jrx.recv_timeout(Duration::from_secs(4)).is_ok();
        crate::verif_hooks::install(None);
        if !(th_ok && pool_ok) {
            std::mem::forget(w);        // threads are stuck on its objects
            return format!("treerace=DEADLOCK:{}:request {} pool {}", attempt, if th_ok { "answered" } else { "HANG" }, if pool_ok { "joined" } else { "never joins" });
        }
        right += 1;
    }
    format!("treerace=ok:{}:{}", attempts, right)
}

pub fn run_case(line: &str) -> String {
    let line = line.trim();
    if let Some(r) = line.strip_prefix("treerace:") {
        return treerace(r.split('|').next().and_then(|x| x.parse().ok()).unwrap_or(30));
    }
    let (spec, rest) = match line.split_once('|') { Some(x) => x, None => return "BADCASE".to_string() };
    let sp: Vec<&str> = spec.split('/').collect();
    if sp.len() != 3 { return "BADCASE".to_string(); }
    let files: Vec<(String, String)> = rest.split(';').filter(|s| !s.is_empty()).map(|f| {
        let q: Vec<&str> = f.split('~').collect();
        (q[0].to_string(), cps_to_string(q[2]))
    }).collect();
    // threads
    struct Th { id: String, stem: String, kind: String }
    let mut ths: Vec<Th> = Vec::new();
    let mut gates: Vec<Gate> = Vec::new();
    for t in sp[0].split(',') {
        let q: Vec<&str> = t.split(':').collect();
        let hook = match q[3] { "0" => Some(HOOKS[0]), "1" => Some(HOOKS[1]), _ => None };
        gates.push(Gate { hook, nth: q[4].parse().unwrap_or(1), count: AtomicUsize::new(0),
                          state: Mutex::new((false, false)), cv: Condvar::new(), finished: AtomicBool::new(false) });
        ths.push(Th { id: q[0].to_string(), stem: q[1].to_string(), kind: q[2].to_string() });
    }
    let gates = Arc::new(gates);
    // the answers the requests get alone
    let lone: Vec<Result<String, String>> = ths.iter().map(|t| {
        let w = world(&files);
        let u = uri_of(&w, &t.stem);
        answer(&w.pm, &u, &t.kind)
    }).collect();

    let w = world(&files);
    install(gates.clone());
    let (tx, rx) = mpsc::channel::<(usize, Result<Result<String, String>, ()>)>();
    let wait_parked_or_done = |k: usize, ms: u64| {
        let g = &gates[k];
        let deadline = Instant::now() + Duration::from_millis(ms);
        let mut st = g.state.lock().unwrap();
        while !st.0 && !g.finished.load(Ordering::SeqCst) {
            let now = Instant::now();
            if now >= deadline { break; }
            let (s2, _) = g.cv.wait_timeout(st, std::cmp::min(deadline - now, Duration::from_millis(10))).unwrap();
            st = s2;
        }
    };
    for (k, t) in ths.iter().enumerate() {
        let pm = w.pm.clone();
        let uri = uri_of(&w, &t.stem);
        let kind = t.kind.clone();
        let tx = tx.clone();
        let gs = gates.clone();
        let _ = std::thread::Builder::new().stack_size(2 << 20).spawn(move || {
            ROLE.with(|r| r.set(k));
            let r = std::panic::catch_unwind(std::panic::AssertUnwindSafe(|| answer(&pm, &uri, &kind)));
            gs[k].finished.store(true, Ordering::SeqCst);
            { let _st = gs[k].state.lock().unwrap(); gs[k].cv.notify_all(); }
            let _ = tx.send((k, r.map_err(|_| ())));
        });
        // until it is parked, has finished, or (blocked on something a parked thread holds) 400 ms have passed
        wait_parked_or_done(k, if gates[k].hook.is_some() { 400 } else { 1200 });
    }
    drop(tx);
    // the notification, from the main thread as in main_loop
    if sp[2] != "-" {
        let q: Vec<&str> = sp[2].split(':').collect();
        let uri = uri_of(&w, q[0]);
        let mut pm = w.pm.clone();
        let pool = ThreadPool::new(1, Box::new(Silent));
        match q[1] {
            "c" => { let text = files.iter().find(|f| f.0 == q[0]).map(|f| f.1.clone()).unwrap_or_default();
                     let _ = pm.notify_document_changed(&uri, &text, &pool); }
            "s" => { let _ = pm.notify_document_saved(&uri, &pool); }
            _ => { pm.doc_service.notify_document_closed(&uri); }
        }
        drop(pool);
    }
    let parked: Vec<String> = ths.iter().enumerate().filter(|(k, _)| gates[*k].state.lock().unwrap().0).map(|(_, t)| t.id.clone()).collect();
    let early: Vec<String> = ths.iter().enumerate().filter(|(k, _)| gates[*k].finished.load(Ordering::SeqCst)).map(|(_, t)| t.id.clone()).collect();
    // open the gates in the given order
    for ch in sp[1].chars() {
        if let Some(k) = ths.iter().position(|t| t.id.starts_with(ch)) {
            { let mut st = gates[k].state.lock().unwrap(); st.1 = true; gates[k].cv.notify_all(); }
            let deadline = Instant::now() + Duration::from_millis(250);
            while !gates[k].finished.load(Ordering::SeqCst) && Instant::now() < deadline { std::thread::sleep(Duration::from_millis(5)); }
        }
    }
    for g in gates.iter() { let mut st = g.state.lock().unwrap(); st.1 = true; g.cv.notify_all(); }
    let mut res: Vec<Option<Result<Result<String, String>, ()>>> = ths.iter().map(|_| None).collect();
    let deadline = Instant::now() + Duration::from_secs(8);
    for _ in 0..ths.len() {
        let left = deadline.saturating_duration_since(Instant::now());
        match rx.recv_timeout(left) { Ok((k, r)) => res[k] = Some(r), Err(_) => break }
    }
    crate::verif_hooks::install(None);
    let mut out: Vec<String> = Vec::new();
    for (k, t) in ths.iter().enumerate() {
        let s = match &res[k] {
            None => "HANG:-".to_string(),
            Some(Err(())) => "PANIC:-".to_string(),
            Some(Ok(r)) => {
                let same = match (r, &lone[k]) { (Ok(a), Ok(b)) => a == b, (Err(_), Err(_)) => true, _ => false };
                format!("{}:{}", if r.is_ok() { "ok" } else { "er" }, if same { "same" } else { "diff" })
            }
        };
        out.push(format!("{}={}", t.id, s));
    }
    drop(w);
    format!("{};parked={};early={}", out.join(","), parked.join(""), early.join(""))
}
}
