//! E-lex: GoldLexer::lex on a text given as code points "97.98.10".
//! result: tok;tok;...|err;err   tok = idx:raw:sl:sc:el:ec:valuecps   err = sl:sc:el:ec:char
use crate::common::{cps_to_string, string_to_cps};
use crate::lexer::GoldLexer;

pub fn lex_obs(text: &String) -> String {
    let mut lexer = GoldLexer::new();
    let (toks, errs) = lexer.lex(text);
    let t: Vec<String> = toks.iter().map(|t| format!("{}:{}:{}:{}:{}:{}:{}",
        t.token_type as usize, t.raw_pos, t.range.start.line, t.range.start.character,
        t.range.end.line, t.range.end.character, string_to_cps(&t.value))).collect();
    let e: Vec<String> = errs.iter().map(|e| format!("{}:{}:{}:{}:{}",
        e.range.start.line, e.range.start.character, e.range.end.line, e.range.end.character,
        e.msg.chars().last().map(|c| c as u32).unwrap_or(0))).collect();
    format!("{}|{}", t.join(";"), e.join(";"))
}

pub fn run_case(line: &str) -> String {
    lex_obs(&cps_to_string(line.trim()))
}
