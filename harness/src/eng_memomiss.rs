//! E-memo, implementation-only part (property C07): the MISS log of the counting context on a bare body.
//! A get_cache miss is what starts an evaluation of a memoised parser; set_cache records the evaluations
//! whose result is stored.  All three memoised parsers (parse_primary, parse_expr, parse_method_call) store
//! every result, errors included, so every miss must be followed by a store and no key may be missed twice.
//! Case line   B:<cps> | T:<cps>  (as for engine memo)
//! Observation <n>|<sets>|<misses>|<hits>|<dup>|<unstored>|<m2>|<s2>
//!   dup       misses whose (cache, len) key was already missed before in this body (must be 0)
//!   unstored  misses not followed by a set_cache (must be 0)
//!   m2, s2    misses / stores of cache 2 (parse_method_call)
use crate::common::cps_to_string;
use crate::eng_memo::{lex, CountingContext};
use crate::parser::body_parser::parse_statement_v2;
use crate::parser::utils::parse_repeat_w_context;
use std::collections::HashSet;

pub fn run_case(line: &str) -> String { crate::eng_memo::watchdog(line, run_case_inner) }

fn run_case_inner(line: &str) -> String {
    let line = line.trim();
    let spec = match line.split_once(':') { Some((_, s)) => s, None => return "BAD-CASE".to_string() };
    let toks = lex(&cps_to_string(spec));
    let mut ctx = CountingContext::new();
    let _ = parse_repeat_w_context(&toks, parse_statement_v2, &mut ctx);
    let sets = ctx.sets.clone();
    let misses = ctx.misses.borrow().clone();
    let mut seen = HashSet::new();
    let mut dup = 0usize;
    for m in &misses {
        if !seen.insert(*m) { dup += 1 }
    }
    let m2 = misses.iter().filter(|m| m.0 == 2).count();
    let s2 = sets.iter().filter(|m| m.0 == 2).count();
    format!("{}|{}|{}|{}|{}|{}|{}|{}", toks.len(), sets.len(), misses.len(), ctx.hits.get(), dup,
            misses.len() as i64 - sets.len() as i64, m2, s2)
}
