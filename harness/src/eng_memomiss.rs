//! E-memo, implementation-only part (property C07): the MISS log of the counting context on a bare body.
//! A get_cache miss is what starts an evaluation of a memoised parser; set_cache only records the
//! evaluations whose result is stored (parse_method_call returns with `?` before set_cache when it fails).
//! Case line   B:<cps> | T:<cps>  (as for engine memo)
//! Observation <n>|<sets>|<misses>|<hits>|<dup01>|<dup2>|<unstored01>|<fail2>
//!   dup01       misses of caches 0/1 whose key was already missed before in this body (must be 0)
//!   dup2        the same for cache 2 (parse_method_call): re-evaluations of FAILING method calls
//!   unstored01  misses of caches 0/1 not followed by a set_cache (must be 0)
//!   fail2       misses of cache 2 not followed by a set_cache (failing evaluations)
use crate::common::cps_to_string;
use crate::eng_memo::{lex, CountingContext};
use crate::parser::body_parser::parse_statement_v2;
use crate::parser::utils::parse_repeat_w_context;
use std::collections::HashSet;

pub fn run_case(line: &str) -> String { crate::eng_memo::watchdog(line, run_case_inner) }

fn run_case_inner(line: &str) -> String {
    let line = line.trim();
    let spec = match line.split_once(':') { Some((_, s)) => s, None => return "BAD-CASE".to_string() };
    let toks = lex(&cps_to_string(spec));
    let mut ctx = CountingContext::new();
    let _ = parse_repeat_w_context(&toks, parse_statement_v2, &mut ctx);
    let sets = ctx.sets.clone();
    let misses = ctx.misses.borrow().clone();
    let mut seen = HashSet::new();
    let (mut dup01, mut dup2) = (0usize, 0usize);
    for m in &misses {
        if !seen.insert(*m) { if m.0 == 2 { dup2 += 1 } else { dup01 += 1 } }
    }
    let m01 = misses.iter().filter(|m| m.0 != 2).count();
    let s01 = sets.iter().filter(|m| m.0 != 2).count();
    let m2 = misses.len() - m01;
    let s2 = sets.len() - s01;
    format!("{}|{}|{}|{}|{}|{}|{}|{}", toks.len(), sets.len(), misses.len(), ctx.hits.get(), dup01, dup2,
            m01 as i64 - s01 as i64, m2 as i64 - s2 as i64)
}
