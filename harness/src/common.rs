use std::panic::{catch_unwind, AssertUnwindSafe};

pub fn guarded<F: FnOnce() -> String>(f: F) -> String {
    match catch_unwind(AssertUnwindSafe(f)) {
        Ok(s) => s,
        Err(e) => {
            let msg = if let Some(s) = e.downcast_ref::<&str>() { s.to_string() }
                      else if let Some(s) = e.downcast_ref::<String>() { s.clone() }
                      else { "?".to_string() };
            format!("PANIC {}", msg.replace('\n', " "))
        }
    }
}

/// like `guarded` for a computation that may have no result: a panic counts as no result
pub fn guarded_opt<T, F: FnOnce() -> Option<T>>(f: F) -> Option<T> {
    catch_unwind(AssertUnwindSafe(f)).unwrap_or(None)
}

/// code points "97.98.99" -> String
pub fn cps_to_string(s: &str) -> String {
    if s.is_empty() { return String::new(); }
    s.split('.').map(|n| char::from_u32(n.parse::<u32>().unwrap()).unwrap()).collect()
}

pub fn string_to_cps(s: &str) -> String {
    s.chars().map(|c| (c as u32).to_string()).collect::<Vec<_>>().join(".")
}
