//! E-parse: text (code points) -> GoldLexer::lex -> parse_gold -> rest length | tree dump | diagnostics
//! diagnostics in the order they were added: sl:sc:el:ec:msgcps
use crate::common::{cps_to_string, string_to_cps};
use crate::lexer::GoldLexer;
use crate::parser::parse_gold;
use crate::treedump::dump_tree;

pub fn parse_obs(text: &String) -> String {
    let mut lexer = GoldLexer::new();
    let (toks, _errs) = lexer.lex(text);
    let ((rest, root), diags) = parse_gold(&toks);
    let d: Vec<String> = diags.iter().map(|d| format!("{}:{}:{}:{}:{}", d.range.start.line, d.range.start.character,
        d.range.end.line, d.range.end.character, if d.msg.is_empty() { "-".to_string() } else { string_to_cps(&d.msg) })).collect();
    // "the parser consumes every token": the remainder it returns must be the TAIL of the token list (a stale slice of an
    // earlier sub-parse can be empty, too, while tokens at the end were never looked at)
    let tail_ok = rest.len() <= toks.len() && std::ptr::eq(rest.as_ptr(), toks[toks.len() - rest.len()..].as_ptr());
    format!("{}{}|{}|{}", rest.len(), if tail_ok { "" } else { "!detached" }, dump_tree(root.as_ref()), d.join(";"))
}

pub fn run_case(line: &str) -> String {
    parse_obs(&cps_to_string(line.trim()))
}
