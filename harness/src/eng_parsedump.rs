//! text (code points) -> lex -> parse_gold -> tree dump | parser diagnostics
use crate::common::cps_to_string;
use crate::lexer::GoldLexer;
use crate::parser::parse_gold;
use crate::treedump::{dump_tree, rng};

pub fn run_case(line: &str) -> String {
    let text = cps_to_string(line.trim());
    let mut lexer = GoldLexer::new();
    let (toks, _errs) = lexer.lex(&text);
    let ((rest, root), diags) = parse_gold(&toks);
    let d: Vec<String> = diags.iter().map(|d| rng(&d.range).replace(' ', ":")).collect();
    format!("{}|{}|{}", rest.len(), dump_tree(root.as_ref()), d.join(";"))
}
