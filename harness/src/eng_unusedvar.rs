//! E-unusedvar (two-phase, tree level): text (code points) -> GoldLexer::lex -> parse_gold ->
//! the REAL UnusedVarAnalyzer driven the way ProjectManager::analyze_ast drives it
//! (AstWalker::<dyn IAnalyzer>::new(true), register, run(&ast), append_diagnostics).
//! The diagnostics reported are those of the RESPONSE: the text is also written to a scratch workspace and
//! ProjectManager::generate_document_diagnostic_report is asked; its items of class U and D are the result. When the
//! analyzer driven directly gives another list the result carries a trailing "!DIRECT[..]" (never seen on the
//! unchanged tree); when the manager answers with an error (unparsable files) the direct list is the result.
//! result: <tree dump>#<sorted canonical diagnostics>
//!   diagnostic = sev:class:sl:sc:el:ec:keycps   sev 2 = WARNING, 1 = ERROR;
//!   class U = "Unused var: <key>", D = "Var name already declared" (key "-"), ? = anything else.
//! A trailing "!POS" marks a tree in which the left operand of a '.' has get_pos() != get_range().start
//! (the model of the analyser BEFORE the repair of tools/c15_proposed_fix.diff, UnusedVar.analyze_old, reads
//! positions from ranges; the analyser as it is does not look at positions) - never seen.
use std::cell::RefCell;
use std::rc::Rc;
use std::sync::Arc;

use crate::analyzers::ast_walker::AstWalker;
use crate::analyzers::unused_var_analyzer::UnusedVarAnalyzer;
use crate::analyzers::IAnalyzer;
use crate::common::{cps_to_string, string_to_cps};
use crate::lexer::tokens::TokenType;
use crate::lexer::GoldLexer;
use crate::parser::ast::{AstBinaryOp, IAstNode};
use crate::parser::parse_gold;
use crate::treedump::dump_tree;
use crate::utils::IRange;

fn canon(d: &lsp_types::Diagnostic) -> String {
    let sev = match d.severity {
        Some(lsp_types::DiagnosticSeverity::ERROR) => 1,
        Some(lsp_types::DiagnosticSeverity::WARNING) => 2,
        Some(lsp_types::DiagnosticSeverity::INFORMATION) => 3,
        Some(lsp_types::DiagnosticSeverity::HINT) => 4,
        _ => 0,
    };
    let (class, key) = if let Some(k) = d.message.strip_prefix("Unused var: ") {
        ("U", if k.is_empty() { "-".to_string() } else { string_to_cps(k) })
    } else if d.message == "Var name already declared" {
        ("D", "-".to_string())
    } else {
        ("?", string_to_cps(&d.message))
    };
    format!("{}:{}:{}:{}:{}:{}:{}", sev, class, d.range.start.line, d.range.start.character,
            d.range.end.line, d.range.end.character, key)
}

/// true iff some '.' binary op has a left operand whose get_pos() differs from its range start
fn pos_assumption_broken(n: &dyn IAstNode) -> bool {
    if let Some(b) = n.as_any().downcast_ref::<AstBinaryOp>() {
        if b.op_token.token_type == TokenType::Dot && b.left_node.get_pos() != b.left_node.get_range().start {
            return true;
        }
    }
    match n.get_children_ref() {
        Some(ch) => ch.iter().any(|c| pos_assumption_broken(*c)),
        None => false,
    }
}

pub fn analyze(ast: &Arc<dyn IAstNode>) -> Vec<String> {
    let mut walker: AstWalker<dyn IAnalyzer> = AstWalker::new(true);
    let analyzer: Rc<RefCell<dyn IAnalyzer>> = Rc::new(RefCell::new(UnusedVarAnalyzer::new()));
    walker.register_visitor(&analyzer);
    walker.run(ast);
    let mut diags: Vec<lsp_types::Diagnostic> = Vec::new();
    analyzer.as_ref().borrow().append_diagnostics(&mut diags);
    let mut out: Vec<String> = diags.iter().map(canon).collect();
    out.sort();
    out
}

#[derive(Debug, Clone)]
struct SilentLogger;
impl crate::utils::ILoggerV2 for SilentLogger {
    fn log_error(&self, _msg: &str) {}
    fn log_warning(&self, _msg: &str) {}
    fn log_info(&self, _msg: &str) {}
    fn log(&self, _log_type: crate::utils::LogType, _level: crate::utils::LogLevel, _msg: &str) {}
    fn clone_box(&self) -> Box<dyn crate::utils::ILoggerV2> { Box::new(SilentLogger) }
    fn clone_box_with_appended_prefix(&self, _prefix: &str) -> Box<dyn crate::utils::ILoggerV2> { Box::new(SilentLogger) }
    fn append_prefix(&mut self, _prefix: &str) {}
}

static COUNTER: std::sync::atomic::AtomicUsize = std::sync::atomic::AtomicUsize::new(0);

/// the U and D items of the diagnostics response for `text` alone in a scratch workspace; None when the manager errs
fn through_manager(text: &str) -> Option<Vec<String>> {
    let n = COUNTER.fetch_add(1, std::sync::atomic::Ordering::SeqCst);
    let dir = std::env::temp_dir().join(format!("goldverif-unusedvar-{}-{}", std::process::id(), n));
    let _ = std::fs::remove_dir_all(&dir);
    std::fs::create_dir_all(&dir).ok()?;
    let r = (|| {
        let file = dir.join("aCase.god");
        std::fs::write(&file, text.as_bytes()).ok()?;
        let root_uri = lsp_types::Url::from_file_path(&dir).ok()?;
        let uri = lsp_types::Url::from_file_path(&file).ok()?;
        let mut pm = crate::manager::ProjectManager::new(Some(root_uri), Box::new(SilentLogger)).ok()?;
        pm.index_files();
        let rep = pm.generate_document_diagnostic_report(&uri).ok()?;
        let mut v: Vec<String> = rep.full_document_diagnostic_report.items.iter()
            .filter(|d| d.message.starts_with("Unused var: ") || d.message == "Var name already declared")
            .map(canon).collect();
        v.sort();
        Some(v)
    })();
    let _ = std::fs::remove_dir_all(&dir);
    r
}

pub fn run_case(line: &str) -> String {
    let text = cps_to_string(line.trim());
    let mut lexer = GoldLexer::new();
    let (toks, _errs) = lexer.lex(&text);
    let ((_rest, root), _diags) = parse_gold(&toks);
    let direct = analyze(&root);
    let flag = if pos_assumption_broken(root.as_ref()) { "!POS" } else { "" };
    let tree = dump_tree(root.as_ref());
    match crate::common::guarded_opt(|| through_manager(&text)) {
        Some(resp) if resp != direct => format!("{}#{}{}!DIRECT[{}]", tree, resp.join(";"), flag, direct.join(";")),
        Some(resp) => format!("{}#{}{}", tree, resp.join(";"), flag),
        None => format!("{}#{}{}", tree, direct.join(";"), flag),
    }
}
