//! E-memo (property C07): memoisation on / off / counted, on the real parser through its PUBLIC generic API.
//!
//! Case line   B:<cps>                 a bare method body (statements only): counting + forgetful context
//!             T:<cps>                 the same without the memo-off run (towers: exponential without memoisation)
//!             F:<cps>/<cps>/...       a file given in parts; parts 1, 3, 5, ... are the texts of method bodies:
//!                                     parse_gold on the concatenation + every body slice as for B
//!             G:<cps>/<cps>/...       the same, the body slices as for T (no memo-off run)
//! Contexts    CountingContext   wraps the real ParserContext (real cache behaviour) and logs every set_cache
//!                               (= what the model logs in `cevals`) and every get_cache miss (= every evaluation)
//!             ForgetfulContext  keeps diagnostics; get_cache answers ONLY the read-back that immediately follows
//!                               a set_cache of the same key (`set_cache(k,len,r); get_cache(k,len).unwrap()`):
//!                               memoisation off
//! Observation B|<n>|<stmts>~<diag set>~<set log>|<stmts>~<diag set>|<same|DIFF: plain ParserContext run>
//!             T|<n>|<stmts>~<diag set>~<set log>
//!             F|<rest>|<tree dump>|<diags in order> {#<stmts of a method body found in the tree>} {@<n>~<stmts>~<diag set>~<set log>~<stmts>~<diag set>}
//!             G|... {@<n>~<stmts>~<diag set>~<set log>}
//!             stmts: statement dumps joined by ' '; diag set: sorted, deduplicated sl:sc:el:ec:msgcps joined by ';';
//!             set log: sorted multiset cache:len joined by ','.
use std::cell::{Cell, RefCell};
use std::sync::Arc;
use crate::common::{cps_to_string, string_to_cps};
use crate::lexer::GoldLexer;
use crate::lexer::tokens::Token;
use crate::parser::ast::IAstNode;
use crate::parser::body_parser::parse_statement_v2;
use crate::parser::utils::parse_repeat_w_context;
use crate::parser::{parse_gold, IParserContext, ParseError, ParserContext, ParserDiagnostic};
use crate::treedump::dump_tree;

pub type CacheVal<'a> = Result<(&'a [Token], Arc<dyn IAstNode>), ParseError<'a>>;

/// evaluations (set_cache calls) after which a run is abandoned: the watchdog against exponential work
pub const EVAL_BUDGET: usize = 2_000_000;

pub struct ForgetfulContext<'a> {
    diags: Vec<ParserDiagnostic>,
    last: RefCell<Option<(usize, usize, CacheVal<'a>)>>,
    pub sets: usize,
}
impl<'a> ForgetfulContext<'a> {
    pub fn new() -> Self { ForgetfulContext { diags: Vec::new(), last: RefCell::new(None), sets: 0 } }
}
impl<'a> IParserContext<'a> for ForgetfulContext<'a> {
    fn add_diagnostic(&mut self, d: ParserDiagnostic) { *self.last.borrow_mut() = None; self.diags.push(d); }
    fn extend_diagnostics<U: IntoIterator<Item = ParserDiagnostic>>(&mut self, ds: U) { *self.last.borrow_mut() = None; self.diags.extend(ds); }
    fn get_diagnostics(self) -> Vec<ParserDiagnostic> { self.diags }
    fn get_cache(&self, k: usize, len: usize) -> Option<CacheVal<'a>> {
        // any read consumes the pending read-back; it is answered only for the key just stored
        match self.last.borrow_mut().take() {
            Some((k0, l0, v)) if k0 == k && l0 == len => Some(v),
            _ => None,
        }
    }
    fn set_cache(&mut self, k: usize, len: usize, r: CacheVal<'a>) {
        self.sets += 1;
        if self.sets > EVAL_BUDGET { panic!("evaluation budget exceeded (memo off)"); }
        *self.last.borrow_mut() = Some((k, len, r));
    }
    fn clear_cache(&mut self) { *self.last.borrow_mut() = None; }
}

pub struct CountingContext<'a> {
    inner: ParserContext<'a>,
    pub sets: Vec<(usize, usize)>,
    pub misses: RefCell<Vec<(usize, usize)>>,
    pub hits: Cell<usize>,
    pub clears: usize,
}
impl<'a> CountingContext<'a> {
    pub fn new() -> Self {
        CountingContext { inner: ParserContext::new(), sets: Vec::new(), misses: RefCell::new(Vec::new()), hits: Cell::new(0), clears: 0 }
    }
}
impl<'a> IParserContext<'a> for CountingContext<'a> {
    fn add_diagnostic(&mut self, d: ParserDiagnostic) { self.inner.add_diagnostic(d) }
    fn extend_diagnostics<U: IntoIterator<Item = ParserDiagnostic>>(&mut self, ds: U) { self.inner.extend_diagnostics(ds) }
    fn get_diagnostics(self) -> Vec<ParserDiagnostic> { self.inner.get_diagnostics() }
    fn get_cache(&self, k: usize, len: usize) -> Option<CacheVal<'a>> {
        let r = self.inner.get_cache(k, len);
        if r.is_some() { self.hits.set(self.hits.get() + 1); } else {
            let mut m = self.misses.borrow_mut();
            m.push((k, len));
            if m.len() > EVAL_BUDGET { panic!("evaluation budget exceeded (memo on)"); }
        }
        r
    }
    fn set_cache(&mut self, k: usize, len: usize, r: CacheVal<'a>) {
        self.sets.push((k, len));
        self.inner.set_cache(k, len, r)
    }
    fn clear_cache(&mut self) { self.clears += 1; self.inner.clear_cache() }
}

pub fn diag_str(d: &ParserDiagnostic) -> String {
    format!("{}:{}:{}:{}:{}", d.range.start.line, d.range.start.character, d.range.end.line, d.range.end.character,
            if d.msg.is_empty() { "-".to_string() } else { string_to_cps(&d.msg) })
}
pub fn diag_set(ds: &[ParserDiagnostic]) -> String {
    let mut v: Vec<String> = ds.iter().map(diag_str).collect();
    v.sort();
    v.dedup();
    v.join(";")
}
pub fn log_str(l: &[(usize, usize)]) -> String {
    let mut v = l.to_vec();
    v.sort();
    v.iter().map(|(k, n)| format!("{}:{}", k, n)).collect::<Vec<_>>().join(",")
}
pub fn stmts_str(stmts: &[Arc<dyn IAstNode>]) -> String {
    stmts.iter().map(|s| dump_tree(s.as_ref())).collect::<Vec<_>>().join(" ")
}

/// (stmts, diag set, set log, miss log)
pub fn run_counting(toks: &[Token]) -> (String, String, Vec<(usize, usize)>, Vec<(usize, usize)>) {
    let mut ctx = CountingContext::new();
    let (_rest, stmts) = parse_repeat_w_context(toks, parse_statement_v2, &mut ctx);
    let sets = std::mem::take(&mut ctx.sets);
    let misses = ctx.misses.replace(Vec::new());
    let s = stmts_str(&stmts);
    let d = diag_set(&ctx.get_diagnostics());
    (s, d, sets, misses)
}
pub fn run_forgetful(toks: &[Token]) -> (String, String) {
    let mut ctx = ForgetfulContext::new();
    let (_rest, stmts) = parse_repeat_w_context(toks, parse_statement_v2, &mut ctx);
    let s = stmts_str(&stmts);
    let d = diag_set(&ctx.get_diagnostics());
    (s, d)
}
pub fn run_plain(toks: &[Token]) -> (String, String) {
    let mut ctx = ParserContext::new();
    let (_rest, stmts) = parse_repeat_w_context(toks, parse_statement_v2, &mut ctx);
    let s = stmts_str(&stmts);
    let d = diag_set(&ctx.get_diagnostics());
    (s, d)
}

fn find_bodies(n: &dyn IAstNode, out: &mut Vec<String>) {
    if n.get_type() == "AstMethodBody" {
        let kids = n.get_children_ref().unwrap_or_default();
        out.push(kids.iter().map(|c| dump_tree(*c)).collect::<Vec<_>>().join(" "));
        return;
    }
    if let Some(kids) = n.get_children_ref() {
        for c in kids { find_bodies(c, out); }
    }
}

pub fn lex(text: &String) -> Vec<Token> {
    let mut lexer = GoldLexer::new();
    let (toks, _errs) = lexer.lex(text);
    toks
}

/// the parts of an F case: (full text, [(start offset, end offset) of every body part], in code points)
pub fn parts_of(spec: &str) -> (String, Vec<(usize, usize)>) {
    let mut text = String::new();
    let mut off = 0usize;
    let mut bodies = Vec::new();
    for (j, p) in spec.split('/').enumerate() {
        let s = cps_to_string(p);
        let n = s.chars().count();
        if j % 2 == 1 { bodies.push((off, off + n)); }
        off += n;
        text.push_str(&s);
    }
    (text, bodies)
}

pub fn slice_of<'t>(toks: &'t [Token], lo: usize, hi: usize) -> &'t [Token] {
    let a = toks.iter().position(|t| t.raw_pos >= lo).unwrap_or(toks.len());
    let b = toks.iter().position(|t| t.raw_pos >= hi).unwrap_or(toks.len());
    &toks[a..b.max(a)]
}

/// every case runs on its own thread (8 MB stack) under a wall-clock watchdog: a parser that loops
/// because a cache answered with the result of another position is reported as HANG
pub fn run_case(line: &str) -> String { watchdog(line, run_case_inner) }

static HANGS: std::sync::atomic::AtomicUsize = std::sync::atomic::AtomicUsize::new(0);

pub fn watchdog(line: &str, f: fn(&str) -> String) -> String {
    use std::sync::atomic::Ordering;
    if HANGS.load(Ordering::SeqCst) >= 3 { return "SKIPPED (three earlier cases of this run hung)".to_string(); }
    let owned = line.to_string();
    let (tx, rx) = std::sync::mpsc::channel();
    let h = std::thread::Builder::new().stack_size(8 * 1024 * 1024).spawn(move || {
        let r = crate::common::guarded(|| f(&owned));
        let _ = tx.send(r);
    }).unwrap();
    match rx.recv_timeout(std::time::Duration::from_secs(4)) {
        Ok(r) => { let _ = h.join(); r }
        Err(_) => { HANGS.fetch_add(1, Ordering::SeqCst); "HANG".to_string() }
    }
}

fn run_case_inner(line: &str) -> String {
    let line = line.trim();
    let (kind, spec) = match line.split_once(':') { Some(x) => x, None => return "BAD-CASE".to_string() };
    match kind {
        "B" | "T" => {
            let toks = lex(&cps_to_string(spec));
            let (s, d, sets, _m) = run_counting(&toks);
            if kind == "T" { return format!("T|{}|{}~{}~{}", toks.len(), s, d, log_str(&sets)); }
            let (so, d_o) = run_forgetful(&toks);
            let (sp, dp) = run_plain(&toks);
            format!("B|{}|{}~{}~{}|{}~{}|{}", toks.len(), s, d, log_str(&sets), so, d_o, if sp == s && dp == d { "same" } else { "DIFF" })
        }
        "F" | "G" => {
            let (text, bodies) = parts_of(spec);
            let toks = lex(&text);
            let ((rest, root), diags) = parse_gold(&toks);
            let d: Vec<String> = diags.iter().map(diag_str).collect();
            let mut out = format!("{}|{}|{}|{}", kind, rest.len(), dump_tree(root.as_ref()), d.join(";"));
            let mut tb = Vec::new();
            find_bodies(root.as_ref(), &mut tb);
            for b in tb { out.push('#'); out.push_str(&b); }
            for (lo, hi) in bodies {
                let sl = slice_of(&toks, lo, hi);
                let (s, d, sets, _m) = run_counting(sl);
                if kind == "G" { out.push_str(&format!("@{}~{}~{}~{}", sl.len(), s, d, log_str(&sets))); continue; }
                let (so, d_o) = run_forgetful(sl);
                out.push_str(&format!("@{}~{}~{}~{}~{}~{}", sl.len(), s, d, log_str(&sets), so, d_o));
            }
            out
        }
        _ => "BAD-CASE".to_string(),
    }
}
