//! E-sem (C10 go-to-definition, C11 completion): the two requests through the PUBLIC path of the server.
//!
//! case:   <files>|<queries>|<abstract workspace>|<declaration table>      (the last two are for the model side)
//!   files   = `<Stem>=<text as code points>` joined by `;`   -> written to <tmp>/goldverif-sem-<pid>-<n>/<Stem>.god
//!   queries = `<K>,<Stem>,<line>,<col>,<abstract question>` joined by `;`
//!             K = D (textDocument/definition) | C (textDocument/completion); the abstract question is ignored here
//! A ProjectManager is created on the temp workspace, index_files(), then every query is answered TWICE by
//! generate_goto_definitions / generate_completion_proposals on a worker thread (10 s per request -> HANG).
//! result: one answer per query joined by `;`
//!   D: links joined by `,` (in the order returned), link = `<Stem>:sl:sc:el:ec/tsl:tsc:tel:tec/osl:osc:oel:oec`
//!      = target file stem : target_selection_range / target_range / origin_selection_range (`-` when None); `-` when empty
//!   C: labels sorted, joined by `,`; `-` when empty
//!   `ERR <msg>` when the request returns an error, `PANIC <msg>`, `HANG`, and `<answer>!IDEM<second answer>` when the
//!   repeated request answers differently.
use std::path::PathBuf;
use std::sync::atomic::{AtomicUsize, Ordering};
use std::sync::mpsc;
use std::time::Duration;

use crate::common::cps_to_string;
use crate::manager::ProjectManager;
use crate::utils::{ILoggerV2, LogLevel, LogType, Position};

#[derive(Debug, Clone)]
struct SilentLogger;
impl ILoggerV2 for SilentLogger {
    fn log_error(&self, _msg: &str) {}
    fn log_warning(&self, _msg: &str) {}
    fn log_info(&self, _msg: &str) {}
    fn log(&self, _log_type: LogType, _level: LogLevel, _msg: &str) {}
    fn clone_box(&self) -> Box<dyn ILoggerV2> { Box::new(SilentLogger) }
    fn clone_box_with_appended_prefix(&self, _prefix: &str) -> Box<dyn ILoggerV2> { Box::new(SilentLogger) }
    fn append_prefix(&mut self, _prefix: &str) {}
}

static COUNTER: AtomicUsize = AtomicUsize::new(0);

/// scratch directory removed when dropped (also during unwinding)
struct TmpDir(PathBuf);
impl TmpDir {
    fn new() -> TmpDir {
        let n = COUNTER.fetch_add(1, Ordering::SeqCst);
        let p = std::env::temp_dir().join(format!("goldverif-sem-{}-{}", std::process::id(), n));
        let _ = std::fs::remove_dir_all(&p);
        std::fs::create_dir_all(&p).unwrap();
        TmpDir(p)
    }
}
impl Drop for TmpDir {
    fn drop(&mut self) { let _ = std::fs::remove_dir_all(&self.0); }
}

fn rng(r: &lsp_types::Range) -> String {
    format!("{}:{}:{}:{}", r.start.line, r.start.character, r.end.line, r.end.character)
}

fn stem_of(u: &lsp_types::Url) -> String {
    match u.to_file_path() {
        Ok(p) => p.file_stem().and_then(|s| s.to_str()).unwrap_or("?").to_string(),
        Err(_) => format!("?{}", u),
    }
}

fn clean(s: &str) -> String {
    s.chars().map(|c| if c == ';' || c == '|' || c == '\n' || c == '\r' { ' ' } else { c }).collect()
}

fn answer(pm: &mut ProjectManager, kind: &str, uri: &lsp_types::Url, pos: &Position) -> String {
    let r = crate::common::guarded(|| match kind {
        "D" => match pm.generate_goto_definitions(uri, pos) {
            Ok(links) => {
                if links.is_empty() { return "-".to_string(); }
                links.iter().map(|l| format!("{}:{}/{}/{}", stem_of(&l.target_uri), rng(&l.target_selection_range),
                    rng(&l.target_range), l.origin_selection_range.as_ref().map(rng).unwrap_or("-".to_string())))
                    .collect::<Vec<_>>().join(",")
            }
            Err(e) => format!("ERR {}", e.msg),
        },
        "C" => match pm.generate_completion_proposals(uri, pos) {
            Ok(items) => {
                if items.is_empty() { return "-".to_string(); }
                let mut v: Vec<String> = items.iter().map(|i| i.label.clone()).collect();
                v.sort();
                v.join(",")
            }
            Err(e) => format!("ERR {}", e.msg),
        },
        _ => "BADQUERY".to_string(),
    });
    clean(&r)
}

struct Query { kind: String, stem: String, line: usize, col: usize }

pub fn run_case(line: &str) -> String {
    let mut parts = line.split('|');
    let files = parts.next().unwrap_or("");
    let queries = parts.next().unwrap_or("");
    let dir = TmpDir::new();
    // a stem written `+Stem` is also OPEN in the editor (didChange with the same text before the first query): the
    // document object is then kept by the server, also when it is first analysed as a dependency of another file
    let mut opened: Vec<(String, String)> = Vec::new();
    for f in files.split(';').filter(|s| !s.is_empty()) {
        let (stem, cps) = match f.split_once('=') { Some(x) => x, None => return "BADCASE".to_string() };
        let text = cps_to_string(cps);
        let stem = match stem.strip_prefix('+') { Some(s) => { opened.push((s.to_string(), text.clone())); s } None => stem };
        std::fs::write(dir.0.join(format!("{}.god", stem)), text.as_bytes()).unwrap();
    }
    let qs: Vec<Query> = queries.split(';').filter(|s| !s.is_empty()).map(|q| {
        let f: Vec<&str> = q.splitn(5, ',').collect();
        Query { kind: f[0].to_string(), stem: f[1].to_string(), line: f[2].parse().unwrap(), col: f[3].parse().unwrap() }
    }).collect();
    let n = qs.len();
    let root = dir.0.clone();
    let (tx, rx) = mpsc::channel::<String>();
    let h = std::thread::Builder::new().stack_size(64 << 20).spawn(move || {
        let root_uri = lsp_types::Url::from_file_path(&root).unwrap();
        let mut pm = match ProjectManager::new(Some(root_uri), Box::new(SilentLogger)) {
            Ok(pm) => pm,
            Err(e) => { for _ in 0..2 * n { let _ = tx.send(format!("ERR-NEW {}", clean(&e.msg))); } return; }
        };
        pm.index_files();
        if !opened.is_empty() {
            let pool = crate::threadpool::ThreadPool::new(1, Box::new(SilentLogger));
            for (stem, text) in opened.iter() {
                let uri = lsp_types::Url::from_file_path(root.join(format!("{}.god", stem))).unwrap();
                let _ = pm.notify_document_changed(&uri, text, &pool);
            }
        }
        for q in qs.iter() {
            let uri = lsp_types::Url::from_file_path(root.join(format!("{}.god", q.stem))).unwrap();
            let pos = Position::new(q.line, q.col);
            // each request is sent twice; the watchdog times every single request
            for _ in 0..2 {
                if tx.send(answer(&mut pm, &q.kind, &uri, &pos)).is_err() { return; }
            }
        }
    }).unwrap();
    let mut outs: Vec<String> = Vec::with_capacity(n);
    let mut hung = false;
    for _ in 0..n {
        let mut two: Vec<String> = Vec::new();
        for _ in 0..2 {
            if hung { two.push("HANG".to_string()); continue; }
            match rx.recv_timeout(Duration::from_secs(10)) {
                Ok(s) => two.push(s),
                Err(mpsc::RecvTimeoutError::Timeout) => { hung = true; two.push("HANG".to_string()); }
                Err(mpsc::RecvTimeoutError::Disconnected) => two.push("PANIC worker thread died".to_string()),
            }
        }
        outs.push(if two[0] == two[1] { two[0].clone() } else { format!("{}!IDEM{}", two[0], two[1]) });
    }
    if !hung { let _ = h.join(); }
    drop(dir);
    outs.join(";")
}
