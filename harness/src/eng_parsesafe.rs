//! As E-parse, but the way the property states it: on a thread with a 2 MB stack, with a watchdog,
//! and with the outline derived from the tree as well (computed, not printed).
use std::sync::mpsc;
use std::time::Duration;
use crate::common::{cps_to_string, guarded};
use crate::analyzers_v2::doc_symbol_generator::DocumentSymbolGeneratorFromAst;
use crate::lexer::GoldLexer;
use crate::parser::parse_gold;

pub fn run_case(line: &str) -> String {
    let text = cps_to_string(line.trim());
    let (tx, rx) = mpsc::channel();
    let h = std::thread::Builder::new().stack_size(2 * 1024 * 1024).spawn(move || {
        let r = guarded(|| {
            // outline + diagnostics derived from the tree, as the server does
            let mut lexer = GoldLexer::new();
            let (toks, _e) = lexer.lex(&text);
            let ((_rest, root), _d) = parse_gold(&toks);
            let syms = DocumentSymbolGeneratorFromAst::new().generate_symbols(root.as_ref());
            let _ = syms.len();
            crate::eng_parse::parse_obs(&text)
        });
        let _ = tx.send(r);
    }).unwrap();
    match rx.recv_timeout(Duration::from_secs(20)) {
        Ok(r) => { let _ = h.join(); r }
        Err(_) => "HANG".to_string(),
    }
}
