//! E-parse / outline (C12): text (code points; anything after '@' is ignored) -> lex -> parse_gold ->
//! DocumentSymbolGeneratorFromAst::generate_symbols(root)  (what ProjectManager::generate_document_symbols runs)
//! result: "<number of parser diagnostics> <tree dump>#<canonical outline>"
//!   outline  = [sym,sym,...]
//!   sym      = name|detail|kind|sl:sc:el:ec|sl:sc:el:ec|children
//!   name     = code points joined by '.', "-" when empty;  detail = "~" (None) or like name
//!   children = "~" (None) or an outline
//! A panic of the lexer/parser (not the subject of C12, see C04) is reported as "X parse-panic#";
//! a panic of the symbol generator propagates to main and is printed as "PANIC ...".
use std::panic::{catch_unwind, AssertUnwindSafe};
use lsp_types::{DocumentSymbol, SymbolKind};
use crate::analyzers_v2::doc_symbol_generator::DocumentSymbolGeneratorFromAst;
use crate::common::{cps_to_string, string_to_cps};
use crate::lexer::GoldLexer;
use crate::parser::parse_gold;
use crate::treedump::dump_tree;

fn cps(s: &str) -> String { if s.is_empty() { "-".to_string() } else { string_to_cps(s) } }

fn kind_code(k: SymbolKind) -> i64 {
    // the numeric code of the LSP wire format
    serde_json::to_value(k).ok().and_then(|v| v.as_i64()).unwrap_or(-1)
}

fn rng(r: &lsp_types::Range) -> String {
    format!("{}:{}:{}:{}", r.start.line, r.start.character, r.end.line, r.end.character)
}

fn show_sym(d: &DocumentSymbol) -> String {
    format!("{}|{}|{}|{}|{}|{}",
        cps(&d.name),
        match &d.detail { None => "~".to_string(), Some(s) => cps(s) },
        kind_code(d.kind),
        rng(&d.range),
        rng(&d.selection_range),
        match &d.children { None => "~".to_string(), Some(l) => show_list(l) })
}

pub fn show_list(l: &Vec<DocumentSymbol>) -> String {
    format!("[{}]", l.iter().map(show_sym).collect::<Vec<_>>().join(","))
}

pub fn run_case(line: &str) -> String {
    // "<text as code points>[@<annotation of the check, ignored here>]"
    let text = cps_to_string(line.split('@').next().unwrap_or("").trim());
    let parsed = catch_unwind(AssertUnwindSafe(|| {
        let mut lexer = GoldLexer::new();
        let (toks, _errs) = lexer.lex(&text);
        let ((_rest, root), diags) = parse_gold(&toks);
        (root, diags.len())
    }));
    let (root, ndiags) = match parsed {
        Ok(r) => r,
        Err(_) => return "X parse-panic#".to_string(),
    };
    let dump = dump_tree(root.as_ref());
    let symbols = DocumentSymbolGeneratorFromAst::new().generate_symbols(root.as_ast_node());
    format!("{} {}#{}", ndiags, dump, show_list(&symbols))
}
