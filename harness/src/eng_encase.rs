//! E-encase (C06): manager/utils.rs:search_encasing_node on the tree of a parsed text.
//! case:   "<text code points>|<line>:<col>,<line>:<col>,..."
//! result: "<tree dump>@<positions>#<answer>;<answer>;..."   answer = kindidx:sl:sc:el:ec of the node found
//! The annotated tree is built exactly as AstAnnotator::generate_annotated_tree builds it (one
//! AnnotatedNode per IAstNode, children = get_children_arc, in that order); the lookup is the real function.
use std::sync::{Arc, RwLock};

use crate::analyzers_v2::annotated_node::AnnotatedNode;
use crate::common::cps_to_string;
use crate::lexer::GoldLexer;
use crate::manager::utils::search_encasing_node;
use crate::parser::ast::IAstNode;
use crate::parser::parse_gold;
use crate::treedump::{dump_tree, KINDS};
use crate::utils::{ILoggerV2, IRange, LogLevel, LogType, Position};

#[derive(Debug, Clone)]
struct SilentLogger;
impl ILoggerV2 for SilentLogger {
    fn log_error(&self, _msg: &str) {}
    fn log_warning(&self, _msg: &str) {}
    fn log_info(&self, _msg: &str) {}
    fn log(&self, _log_type: LogType, _level: LogLevel, _msg: &str) {}
    fn clone_box(&self) -> Box<dyn ILoggerV2> { Box::new(SilentLogger) }
    fn clone_box_with_appended_prefix(&self, _prefix: &str) -> Box<dyn ILoggerV2> { Box::new(SilentLogger) }
    fn append_prefix(&mut self, _prefix: &str) {}
}

fn annotated(node: &Arc<dyn IAstNode>) -> Arc<RwLock<AnnotatedNode<dyn IAstNode>>> {
    let new_node = Arc::new(RwLock::new(AnnotatedNode::new(node, None)));
    if let Some(children) = node.get_children_arc() {
        for child in children {
            let c = annotated(child);
            c.write().unwrap().parent = Some(Arc::downgrade(&new_node));
            new_node.write().unwrap().children.push(c);
        }
    }
    new_node
}

pub fn run_case(line: &str) -> String {
    let line = line.trim();
    let (text_cps, positions) = match line.split_once('|') { Some(x) => x, None => (line, "") };
    let text = cps_to_string(text_cps);
    let mut lexer = GoldLexer::new();
    let (toks, _errs) = lexer.lex(&text);
    let ((_rest, root), _diags) = parse_gold(&toks);
    let root: Arc<dyn IAstNode> = root;
    let tree = annotated(&root);
    let logger: Box<dyn ILoggerV2> = Box::new(SilentLogger);
    let mut answers: Vec<String> = Vec::new();
    for p in positions.split(',').filter(|s| !s.is_empty()) {
        let (l, c) = p.split_once(':').unwrap();
        let pos = Position::new(l.parse::<usize>().unwrap(), c.parse::<usize>().unwrap());
        let found = search_encasing_node(&tree, &pos, &logger);
        let f = found.read().unwrap();
        let kind = f.data.get_type();
        let kidx = KINDS.iter().position(|k| *k == kind).map(|i| i as i64).unwrap_or(-1);
        let r = f.data.get_range();
        answers.push(format!("{}:{}:{}:{}:{}", kidx, r.start.line, r.start.character, r.end.line, r.end.character));
    }
    format!("{}@{}#{}", dump_tree(root.as_ref()), positions, answers.join(";"))
}
