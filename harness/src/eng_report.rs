//! E-report (C15/C16, the ASSEMBLED diagnostics response): what the client receives from
//! ProjectManager::generate_document_diagnostic_report, item by item, IN ORDER.
//! case:   a Gold source text as code points "99.108.97..."
//! The text is written to <tmp>/goldverif-report-<pid>-<n>/aCase.god, a ProjectManager is created on that
//! workspace, index_files(), then generate_document_diagnostic_report(uri) TWICE on the same manager.
//! result: <tree dump>@<parser diagnostics>#<first response>|IDEM-OK|<checkers>
//!         (or ...#<first response>|IDEM-BAD!<second response>|<checkers> when the second request answers differently)
//!   tree dump            the document's AST (treedump.rs)
//!   parser diagnostics   Document::get_parser_diagnostics() in order:  sl:sc:el:ec:msgcps  joined by ';'
//!   response             the items in the order of the response:  sev:srccps:tags:sl:sc:el:ec:msgcps  joined by ';'
//!                        sev 1 ERROR 2 WARNING 3 INFORMATION 4 HINT 0 none; srccps "-" = no source;
//!                        tags = tag numbers joined by ',' ("-" = none; UNNECESSARY = 1); msgcps = the full message
//!   checkers             what each REAL checker says when it is driven ALONE on the same document (its own
//!                        walker, its own collector):  <unused>/<return type>/<unpurged>/<naming>/<inherited>,
//!                        each a SORTED list of items in the format above
//! A case that does not answer within 10 s prints HANG; a panic prints PANIC <msg>.
use std::cell::RefCell;
use std::path::PathBuf;
use std::rc::Rc;
use std::sync::atomic::{AtomicUsize, Ordering};
use std::sync::{mpsc, Arc, Mutex};
use std::time::Duration;

use lsp_types::Diagnostic;

use crate::analyzers::ast_walker::AstWalker;
use crate::analyzers::function_return_type_checker::FunctionReturnTypeChecker;
use crate::analyzers::unused_var_analyzer::UnusedVarAnalyzer;
use crate::analyzers::IAnalyzer;
use crate::analyzers_v2::annotated_ast_walker::{AnnotatedAstWalkerPreOrder, IAnnotatedNodeVisitor};
use crate::analyzers_v2::inherited_checker::InheritedChecker;
use crate::analyzers_v2::naming_convention_checker::NamingConventionChecker;
use crate::analyzers_v2::unpurged_varbytearray_checker::UnpurgedVarByteArrayChecker;
use crate::analyzers_v2::AnnotatedAstNodeArx;
use crate::common::{cps_to_string, string_to_cps};
use crate::manager::semantic_analysis_service::AnalyzeRequestOptions;
use crate::manager::ProjectManager;
use crate::parser::ast::IAstNode;
use crate::treedump::dump_tree;
use crate::utils::{GenericDiagnosticCollector, IDiagnosticCollector, ILoggerV2, LogLevel, LogType};

#[derive(Debug, Clone)]
struct SilentLogger;
impl ILoggerV2 for SilentLogger {
    fn log_error(&self, _msg: &str) {}
    fn log_warning(&self, _msg: &str) {}
    fn log_info(&self, _msg: &str) {}
    fn log(&self, _log_type: LogType, _level: LogLevel, _msg: &str) {}
    fn clone_box(&self) -> Box<dyn ILoggerV2> { Box::new(SilentLogger) }
    fn clone_box_with_appended_prefix(&self, _prefix: &str) -> Box<dyn ILoggerV2> { Box::new(SilentLogger) }
    fn append_prefix(&mut self, _prefix: &str) {}
}

static COUNTER: AtomicUsize = AtomicUsize::new(0);

struct TmpDir(PathBuf);
impl TmpDir {
    fn new() -> TmpDir {
        let n = COUNTER.fetch_add(1, Ordering::SeqCst);
        let p = std::env::temp_dir().join(format!("goldverif-report-{}-{}", std::process::id(), n));
        let _ = std::fs::remove_dir_all(&p);
        std::fs::create_dir_all(&p).unwrap();
        TmpDir(p)
    }
}
impl Drop for TmpDir {
    fn drop(&mut self) { let _ = std::fs::remove_dir_all(&self.0); }
}

fn cps(s: &str) -> String { if s.is_empty() { "-".to_string() } else { string_to_cps(s) } }

fn item(d: &Diagnostic) -> String {
    let sev = match d.severity {
        Some(lsp_types::DiagnosticSeverity::ERROR) => 1,
        Some(lsp_types::DiagnosticSeverity::WARNING) => 2,
        Some(lsp_types::DiagnosticSeverity::INFORMATION) => 3,
        Some(lsp_types::DiagnosticSeverity::HINT) => 4,
        _ => 0,
    };
    let src = match &d.source { Some(s) => cps(s), None => "-".to_string() };
    let tags = match &d.tags {
        Some(ts) if !ts.is_empty() => ts.iter().map(|t| {
            if *t == lsp_types::DiagnosticTag::UNNECESSARY { "1".to_string() }
            else if *t == lsp_types::DiagnosticTag::DEPRECATED { "2".to_string() }
            else { "9".to_string() }
        }).collect::<Vec<_>>().join(","),
        _ => "-".to_string(),
    };
    format!("{}:{}:{}:{}:{}:{}:{}:{}", sev, src, tags, d.range.start.line, d.range.start.character,
            d.range.end.line, d.range.end.character, cps(&d.message))
}

fn in_order(items: &Vec<Diagnostic>) -> String { items.iter().map(item).collect::<Vec<_>>().join(";") }
fn sorted(items: &Vec<Diagnostic>) -> String {
    let mut v: Vec<String> = items.iter().map(item).collect();
    v.sort();
    v.join(";")
}

/// one v1 analyser alone, the way ProjectManager::analyze_ast drives the pair
fn v1_alone(ast: &Arc<dyn IAstNode>, analyzer: Rc<RefCell<dyn IAnalyzer>>) -> Vec<Diagnostic> {
    let mut walker: AstWalker<dyn IAnalyzer> = AstWalker::new(true);
    walker.register_visitor(&analyzer);
    walker.run(ast);
    let mut diags: Vec<Diagnostic> = Vec::new();
    analyzer.as_ref().borrow().append_diagnostics(&mut diags);
    diags
}

/// one v2 checker alone: its own collector, its own pre-order walk of the annotated tree
fn v2_alone<F>(tree: &AnnotatedAstNodeArx, mk: F) -> Vec<Diagnostic>
where F: FnOnce(Arc<Mutex<dyn IDiagnosticCollector<Diagnostic>>>) -> Box<dyn IAnnotatedNodeVisitor> {
    let coll: Arc<Mutex<dyn IDiagnosticCollector<Diagnostic>>> =
        Arc::new(Mutex::new(GenericDiagnosticCollector::<Diagnostic>::new()));
    let mut walker: AnnotatedAstWalkerPreOrder<dyn IAnnotatedNodeVisitor> = AnnotatedAstWalkerPreOrder::new();
    walker.register_visitor(mk(coll.clone()));
    walker.walk(tree);
    let r = coll.lock().unwrap().take_diagnostics();
    r
}

fn one_case(text: String) -> String {
    let dir = TmpDir::new();
    let file = dir.0.join("aCase.god");
    std::fs::write(&file, text.as_bytes()).unwrap();
    let root_uri = lsp_types::Url::from_file_path(&dir.0).unwrap();
    let uri = lsp_types::Url::from_file_path(&file).unwrap();
    let mut pm = match ProjectManager::new(Some(root_uri), Box::new(SilentLogger)) {
        Ok(pm) => pm,
        Err(e) => return format!("#ERR-NEW {}", e.msg.replace('\n', " ")),
    };
    pm.index_files();
    let first = match pm.generate_document_diagnostic_report(&uri) {
        Ok(r) => in_order(&r.full_document_diagnostic_report.items),
        Err(e) => return format!("#ERR-REPORT {}", e.msg.replace('\n', " ")),
    };
    let second = match pm.generate_document_diagnostic_report(&uri) {
        Ok(r) => in_order(&r.full_document_diagnostic_report.items),
        Err(e) => format!("ERR-REPORT2 {}", e.msg.replace('\n', " ")),
    };
    let doc = match pm.doc_service.get_parsed_document(&uri, true) {
        Ok(doc) => doc,
        Err(e) => return format!("#ERR-DOC {}", e.msg.replace('\n', " ")),
    };
    let (tree, pdiags, ast) = {
        let d = doc.lock().unwrap();
        let pd: Vec<String> = d.get_parser_diagnostics().iter().map(|p| {
            format!("{}:{}:{}:{}:{}", p.range.start.line, p.range.start.character, p.range.end.line, p.range.end.character, cps(&p.msg))
        }).collect();
        (dump_tree(d.get_ast().as_ref()), pd.join(";"), d.get_ast().clone())
    };
    // the real checkers, each alone
    let unused = v1_alone(&ast, Rc::new(RefCell::new(UnusedVarAnalyzer::new())));
    let ret = v1_alone(&ast, Rc::new(RefCell::new(FunctionReturnTypeChecker::new())));
    let annotated: Option<AnnotatedAstNodeArx> = pm.analyze_doc(&uri, AnalyzeRequestOptions::default().set_cache(true)).ok()
        .and_then(|d| d.lock().unwrap().annotated_ast.clone());
    let checkers = match annotated {
        Some(t) => {
            let unp = v2_alone(&t, |c| Box::new(UnpurgedVarByteArrayChecker::new(c)));
            let nam = v2_alone(&t, |c| Box::new(NamingConventionChecker::new(c)));
            let inh = v2_alone(&t, |c| Box::new(InheritedChecker::new(c)));
            format!("{}/{}/{}/{}/{}", sorted(&unused), sorted(&ret), sorted(&unp), sorted(&nam), sorted(&inh))
        }
        None => format!("{}/{}/NO-ANNOTATED-TREE", sorted(&unused), sorted(&ret)),
    };
    let idem = if first == second { "IDEM-OK".to_string() } else { format!("IDEM-BAD!{}", second) };
    format!("{}@{}#{}|{}|{}", tree, pdiags, first, idem, checkers)
}

pub fn run_case(line: &str) -> String {
    let text = cps_to_string(line.trim());
    let (tx, rx) = mpsc::channel::<String>();
    let h = std::thread::Builder::new().stack_size(64 << 20).spawn(move || {
        let r = crate::common::guarded(|| one_case(text));
        let _ = tx.send(r);
    }).unwrap();
    match rx.recv_timeout(Duration::from_secs(10)) {
        Ok(s) => { let _ = h.join(); s }
        Err(_) => "HANG".to_string(),
    }
}
