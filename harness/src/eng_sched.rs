//! E-sched: forced schedules at the verification hooks (hooks build only).
//! case: <scenario>;<request kind>   scenario = change_window | analyze_pair | publish_pair | parse_pair
//!                                    kind = completion | diagnostics | definition
//! result: per request the document version its answer was computed from (read off the answer) and whether
//!         the answer equals the answer the same request gets alone on that version:  r1=<v>/<same> r2=<v>/<same> hook=<reached>
#[cfg(not(gold_lsp_verif))]
pub fn run_case(_line: &str) -> String { "NOHOOKS".to_string() }

#[cfg(gold_lsp_verif)]
pub use imp::run_case;

#[cfg(gold_lsp_verif)]
mod imp {
use std::sync::{Arc, Condvar, Mutex};
use std::sync::atomic::{AtomicUsize, Ordering};
use std::time::Duration;
use lsp_types::Url;
use crate::manager::ProjectManager;
use crate::threadpool::ThreadPool;
use crate::utils::{ILoggerV2, LogLevel, LogType, Position};

#[derive(Debug, Clone)]
struct Silent;
impl ILoggerV2 for Silent {
    fn log_error(&self, _m: &str) {}
    fn log_warning(&self, _m: &str) {}
    fn log_info(&self, _m: &str) {}
    fn log(&self, _t: LogType, _l: LogLevel, _m: &str) {}
    fn clone_box(&self) -> Box<dyn ILoggerV2> { Box::new(Silent) }
    fn clone_box_with_appended_prefix(&self, _p: &str) -> Box<dyn ILoggerV2> { Box::new(Silent) }
    fn append_prefix(&mut self, _p: &str) {}
}

static COUNTER: AtomicUsize = AtomicUsize::new(0);
struct TempDir(std::path::PathBuf);
impl Drop for TempDir { fn drop(&mut self) { let _ = std::fs::remove_dir_all(&self.0); } }

/// version k of the document: k blank lines in front shift every declaration (definition targets),
/// the field and the unused local carry the version in their names (completion, diagnostics)
fn text(k: usize) -> String {
    format!("{}class aDoc (aBase)\nF_v{} : int4\nproc Work\n  var u_v{} : int4\n  var t : aBase\n  t.B0 = self.F_v{}\n  self.\nendproc\n",
            "\n".repeat(k), k, k, k)
}

fn request(pm: &ProjectManager, uri: &Url, kind: &str, k_hint: usize) -> String {
    let mut pm = pm.clone();
    // positions are version dependent (k leading blank lines): try every candidate version's position and
    // keep the first non-empty answer; the answer itself tells the version
    match kind {
        "completion" => {
            let mut out = String::new();
            for k in [k_hint, 0, 1, 2] {
                let pos = Position::new(k + 6, 7);
                if let Ok(items) = pm.generate_completion_proposals(uri, &pos) {
                    let mut labels: Vec<String> = items.iter().map(|i| i.label.clone()).collect();
                    labels.sort();
                    if labels.iter().any(|l| l.starts_with("F_v")) { out = labels.join(","); break; }
                }
            }
            out
        }
        "diagnostics" => match pm.generate_document_diagnostic_report(uri) {
            Ok(r) => { let mut v: Vec<String> = r.full_document_diagnostic_report.items.iter()
                .map(|d| format!("{}:{}:{}", d.range.start.line, d.range.start.character, d.message)).collect(); v.sort(); v.join(",") }
            Err(e) => format!("ERR {}", e.msg),
        },
        "definition" => {
            let mut out = String::new();
            for k in [k_hint, 0, 1, 2] {
                let pos = Position::new(k + 5, 17);      // on F_v<k> in `self.F_v<k>`
                if let Ok(links) = pm.generate_goto_definitions(uri, &pos) {
                    if !links.is_empty() {
                        out = links.iter().map(|l| format!("{}:{}", l.target_selection_range.start.line, l.target_selection_range.start.character)).collect::<Vec<_>>().join(",");
                        break;
                    }
                }
            }
            out
        }
        _ => "BADKIND".to_string(),
    }
}

/// which version does an answer come from?
fn version_of(kind: &str, ans: &str) -> String {
    match kind {
        "completion" => { for k in 0..3 { if ans.contains(&format!("F_v{}", k)) { return k.to_string(); } } "?".to_string() }
        "diagnostics" => { for k in 0..3 { if ans.contains(&format!("u_v{}", k)) { return k.to_string(); } } "?".to_string() }
        "definition" => { for k in 0..3 { if ans.starts_with(&format!("{}:", k + 1)) { return k.to_string(); } } "?".to_string() }
        _ => "?".to_string(),
    }
}

struct World { _dir: TempDir, pm: ProjectManager, uri: Url, pool: ThreadPool }

fn world(disk_version: usize) -> World {
    let n = COUNTER.fetch_add(1, Ordering::SeqCst);
    let dir = std::env::temp_dir().join(format!("goldverif-sched-{}-{}", std::process::id(), n));
    std::fs::create_dir_all(&dir).unwrap();
    std::fs::write(dir.join("aBase.god"), "class aBase\nB0 : int4\n").unwrap();
    std::fs::write(dir.join("aDoc.god"), text(disk_version)).unwrap();
    let root = Url::from_file_path(std::fs::canonicalize(&dir).unwrap()).unwrap();
    let uri = Url::from_file_path(std::fs::canonicalize(dir.join("aDoc.god")).unwrap()).unwrap();
    let mut pm = ProjectManager::new(Some(root), Box::new(Silent)).unwrap();
    pm.index_files();
    World { _dir: TempDir(dir), pm, uri, pool: ThreadPool::new(1, Box::new(Silent)) }
}

/// the answer the request gets alone, on a fresh server whose document has version k in the editor
fn solo(kind: &str, k: usize) -> String {
    let mut w = world(0);
    let _ = w.pm.notify_document_changed(&w.uri, &text(k), &w.pool);
    request(&w.pm, &w.uri, kind, k)
}

struct Gate { state: Mutex<(bool, bool)>, cv: Condvar }   // (reached, released)

pub fn run_case(line: &str) -> String {
    let (scenario, kind) = line.trim().split_once(';').unwrap();
    let (hook_name, changer): (&'static str, bool) = match scenario {
        "change_window" => ("change:between_reset_and_install", true),
        "analyze_pair" => ("analyze:after_cache_check", false),
        "publish_pair" => ("annotate:after_publish_tree", false),
        "parse_pair" => ("doc:between_read_and_write_lock", false),
        _ => return "BADSCENARIO".to_string(),
    };
    let mut w = world(0);
    if scenario != "parse_pair" {
        let _ = w.pm.notify_document_changed(&w.uri, &text(1), &w.pool);
    }
    if changer {
        // sanity: alone, the request sees version 1
        let a = request(&w.pm, &w.uri, kind, 1);
        if version_of(kind, &a) != "1" { return format!("SETUP-BAD {}", a); }
    }
    let gate = Arc::new(Gate { state: Mutex::new((false, false)), cv: Condvar::new() });
    let g2 = gate.clone();
    // the FIRST thread to reach the hook parks there until released (or 5 s)
    crate::verif_hooks::install(Some(Arc::new(move |name: &'static str| {
        if name != hook_name { return; }
        let mut st = g2.state.lock().unwrap();
        if st.0 { return; }
        st.0 = true;
        g2.cv.notify_all();
        let deadline = std::time::Instant::now() + Duration::from_secs(5);
        while !st.1 {
            let left = deadline.saturating_duration_since(std::time::Instant::now());
            if left.is_zero() { break; }
            st = g2.cv.wait_timeout(st, left).unwrap().0;
        }
    })));
    let pm1 = w.pm.clone(); let uri1 = w.uri.clone(); let kind1 = kind.to_string();
    let first = std::thread::spawn(move || {
        if changer {
            let mut pm = pm1; let pool = ThreadPool::new(1, Box::new(Silent));
            let _ = pm.notify_document_changed(&uri1, &text(2), &pool);
            String::new()
        } else {
            request(&pm1, &uri1, &kind1, if kind1 == "x" {0} else {1})
        }
    });
    // wait until the first thread is parked at the hook
    let reached = {
        let st = gate.state.lock().unwrap();
        let (st, _) = gate.cv.wait_timeout_while(st, Duration::from_secs(3), |s| !s.0).unwrap();
        st.0
    };
    let pm2 = w.pm.clone(); let uri2 = w.uri.clone(); let kind2 = kind.to_string();
    let hint = if scenario == "parse_pair" { 0 } else { 1 };
    let (tx, rx) = std::sync::mpsc::channel();
    let second = std::thread::spawn(move || { let a = request(&pm2, &uri2, &kind2, hint); let _ = tx.send(()); a });
    // give the second request time to finish (it may legitimately block until the first moves on)
    let _ = rx.recv_timeout(Duration::from_millis(400));
    { let mut st = gate.state.lock().unwrap(); st.1 = true; gate.cv.notify_all(); }
    let a1 = first.join().unwrap_or_else(|_| "PANIC".to_string());
    let a2 = second.join().unwrap_or_else(|_| "PANIC".to_string());
    crate::verif_hooks::install(None);
    let v2 = version_of(kind, &a2);
    let same2 = match v2.parse::<usize>() { Ok(k) => a2 == solo(kind, k), Err(_) => false };
    if changer {
        format!("r2={}/{} hook={}", v2, same2, reached)
    } else {
        let v1 = version_of(kind, &a1);
        let same1 = match v1.parse::<usize>() { Ok(k) => a1 == solo(kind, k), Err(_) => false };
        format!("r1={}/{} r2={}/{} hook={}", v1, same1, v2, same2, reached)
    }
}
}
