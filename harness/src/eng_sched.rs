//! E-sched: forced schedules at the verification hooks (hooks build only).
//! case: <scenario>;<request kind>   scenario = change_window | analyze_pair | publish_pair | parse_pair
//!                                              | two:<state>:<hookA>:<hookB>:<ab|ba>[:c]
//!                                              | tree_vs_change
//!   tree_vs_change: a change notification is parked inside its critical section (it holds the DocumentInfo write lock of
//!        aDoc) while the class tree is built by a pool; the gate opens 300 ms later.  The builder must WAIT for the
//!        document, not skip it: afterwards supertypes(aDoc) = aBase.  result: tree=<names of the supertypes> hook=<reached>
//!   two: request Ta is started and parked at its first arrival at hookA, then request Tb is started and parked at
//!        its first arrival at hookB (if it gets there: it may block on something Ta holds); the gates are opened in
//!        the given order with time for the released request to finish in between.  state = fresh (nothing opened or
//!        parsed, disk version 0) | changed (version 1 in the editor, nothing analysed); hooks are given by index into
//!        HOOKS; with the suffix `:c` Tb is not a request but the change notification installing version 2.
//!        A request or notification that has not returned 8 s after both gates were opened is reported as HANG.
//!                                    kind = completion | diagnostics | definition
//! result: per request the document version its answer was computed from (read off the answer) and whether
//!         the answer equals the answer the same request gets alone on that version:  r1=<v>/<same> r2=<v>/<same> hook=<reached>
#[cfg(not(gold_lsp_verif))]
pub fn run_case(_line: &str) -> String { "NOHOOKS".to_string() }

#[cfg(gold_lsp_verif)]
pub use imp::run_case;

#[cfg(gold_lsp_verif)]
mod imp {
use std::sync::{Arc, Condvar, Mutex};
use std::sync::atomic::{AtomicUsize, Ordering};
use std::time::Duration;
use lsp_types::Url;
use crate::manager::ProjectManager;
use crate::threadpool::ThreadPool;
use crate::utils::{ILoggerV2, LogLevel, LogType, Position};

#[derive(Debug, Clone)]
struct Silent;
impl ILoggerV2 for Silent {
    fn log_error(&self, _m: &str) {}
    fn log_warning(&self, _m: &str) {}
    fn log_info(&self, _m: &str) {}
    fn log(&self, _t: LogType, _l: LogLevel, _m: &str) {}
    fn clone_box(&self) -> Box<dyn ILoggerV2> { Box::new(Silent) }
    fn clone_box_with_appended_prefix(&self, _p: &str) -> Box<dyn ILoggerV2> { Box::new(Silent) }
    fn append_prefix(&mut self, _p: &str) {}
}

static COUNTER: AtomicUsize = AtomicUsize::new(0);
struct TempDir(std::path::PathBuf);
impl Drop for TempDir { fn drop(&mut self) { let _ = std::fs::remove_dir_all(&self.0); } }

/// version k of the document: k blank lines in front shift every declaration (definition targets),
/// the field and the unused local carry the version in their names (completion, diagnostics); the second method's
/// name breaks the casing convention, so that every diagnostics answer holds a finding of the annotated-tree checkers
fn text(k: usize) -> String {
    format!("{}class aDoc (aBase)\nF_v{} : int4\nproc Work\n  var u_v{} : int4\n  var t : aBase\n  t.B0 = self.F_v{}\n  self.\nendproc\nproc lower_v{}\nendproc\n",
            "\n".repeat(k), k, k, k, k)
}

fn request(pm: &ProjectManager, uri: &Url, kind: &str, k_hint: usize) -> String {
    request_at(pm, uri, kind, &[k_hint, 0, 1, 2])
}

/// one request, as a client that knows the document has version k sends it (no second try that could hide an
/// empty answer computed from a half-analysed document)
fn request_exact(pm: &ProjectManager, uri: &Url, kind: &str, k: usize) -> String {
    request_at(pm, uri, kind, &[k])
}

fn request_at(pm: &ProjectManager, uri: &Url, kind: &str, candidates: &[usize]) -> String {
    let mut pm = pm.clone();
    // positions are version dependent (k leading blank lines): try every candidate version's position and
    // keep the first non-empty answer; the answer itself tells the version
    match kind {
        "completion" => {
            let mut out = String::new();
            for &k in candidates {
                let pos = Position::new(k + 6, 7);
                if let Ok(items) = pm.generate_completion_proposals(uri, &pos) {
                    let mut labels: Vec<String> = items.iter().map(|i| i.label.clone()).collect();
                    labels.sort();
                    if labels.iter().any(|l| l.starts_with("F_v")) { out = labels.join(","); break; }
                }
            }
            out
        }
        "diagnostics" => match pm.generate_document_diagnostic_report(uri) {
            Ok(r) => { let mut v: Vec<String> = r.full_document_diagnostic_report.items.iter()
                .map(|d| format!("{}:{}:{}", d.range.start.line, d.range.start.character, d.message)).collect(); v.sort(); v.join(",") }
            Err(e) => format!("ERR {}", e.msg),
        },
        "definition" => {
            let mut out = String::new();
            for &k in candidates {
                let pos = Position::new(k + 5, 17);      // on F_v<k> in `self.F_v<k>`
                if let Ok(links) = pm.generate_goto_definitions(uri, &pos) {
                    if !links.is_empty() {
                        out = links.iter().map(|l| format!("{}:{}", l.target_selection_range.start.line, l.target_selection_range.start.character)).collect::<Vec<_>>().join(",");
                        break;
                    }
                }
            }
            out
        }
        _ => "BADKIND".to_string(),
    }
}

/// which version does an answer come from?
fn version_of(kind: &str, ans: &str) -> String {
    match kind {
        "completion" => { for k in 0..3 { if ans.contains(&format!("F_v{}", k)) { return k.to_string(); } } "?".to_string() }
        "diagnostics" => { for k in 0..3 { if ans.contains(&format!("u_v{}", k)) { return k.to_string(); } } "?".to_string() }
        "definition" => { for k in 0..3 { if ans.starts_with(&format!("{}:", k + 1)) { return k.to_string(); } } "?".to_string() }
        _ => "?".to_string(),
    }
}

struct World { _dir: TempDir, pm: ProjectManager, uri: Url, pool: ThreadPool }

fn world(disk_version: usize) -> World {
    let n = COUNTER.fetch_add(1, Ordering::SeqCst);
    let dir = std::env::temp_dir().join(format!("goldverif-sched-{}-{}", std::process::id(), n));
    std::fs::create_dir_all(&dir).unwrap();
    std::fs::write(dir.join("aBase.god"), "class aBase\nB0 : int4\n").unwrap();
    std::fs::write(dir.join("aDoc.god"), text(disk_version)).unwrap();
    let root = Url::from_file_path(std::fs::canonicalize(&dir).unwrap()).unwrap();
    let uri = Url::from_file_path(std::fs::canonicalize(dir.join("aDoc.god")).unwrap()).unwrap();
    let mut pm = ProjectManager::new(Some(root), Box::new(Silent)).unwrap();
    pm.index_files();
    World { _dir: TempDir(dir), pm, uri, pool: ThreadPool::new(1, Box::new(Silent)) }
}

/// the answer the request gets alone, on a fresh server whose document has version k in the editor
fn solo(kind: &str, k: usize) -> String {
    let mut w = world(0);
    let _ = w.pm.notify_document_changed(&w.uri, &text(k), &w.pool);
    request_exact(&w.pm, &w.uri, kind, k)
}

struct Gate { state: Mutex<(bool, bool)>, cv: Condvar }   // (reached, released)

const HOOKS: [&str; 6] = ["analyze:after_cache_check", "annotate:after_publish_tree", "doc:between_read_and_write_lock",
                          "entity:between_lookup_and_insert", "change:between_reset_and_install",
                          "diag:between_lint_walk_and_take"];

fn park(g: &Gate) {
    let mut st = g.state.lock().unwrap();
    if st.0 { return; }
    st.0 = true;
    g.cv.notify_all();
    let deadline = std::time::Instant::now() + Duration::from_secs(5);
    while !st.1 {
        let left = deadline.saturating_duration_since(std::time::Instant::now());
        if left.is_zero() { break; }
        st = g.cv.wait_timeout(st, left).unwrap().0;
    }
}

fn wait_reached(g: &Gate, ms: u64) -> bool {
    let st = g.state.lock().unwrap();
    let (st, _) = g.cv.wait_timeout_while(st, Duration::from_millis(ms), |s| !s.0).unwrap();
    st.0
}

fn open(g: &Gate) { let mut st = g.state.lock().unwrap(); st.1 = true; g.cv.notify_all(); }

pub fn run_case(line: &str) -> String {
    let (scenario, kind) = line.trim().split_once(';').unwrap();
    if let Some(rest) = scenario.strip_prefix("two:") {
        // two:<state>:<index of hookA>:<index of hookB>:<order>
        let f: Vec<&str> = rest.split(':').collect();
        if f.len() != 4 && !(f.len() == 5 && f[4] == "c") { return "BADSCENARIO".to_string(); }
        let b_changes = f.len() == 5;
        let (ia, ib) = match (f[1].parse::<usize>(), f[2].parse::<usize>()) { (Ok(a), Ok(b)) if a < HOOKS.len() && b < HOOKS.len() => (a, b), _ => return "BADSCENARIO".to_string() };
        let (hook_a, hook_b) = (HOOKS[ia], HOOKS[ib]);
        let changed = match f[0] { "fresh" => false, "changed" => true, _ => return "BADSCENARIO".to_string() };
        let a_first = match f[3] { "ab" => true, "ba" => false, _ => return "BADSCENARIO".to_string() };
        let mut w = world(0);
        let version = if changed { let _ = w.pm.notify_document_changed(&w.uri, &text(1), &w.pool); 1 } else { 0 };
        let ga = Arc::new(Gate { state: Mutex::new((false, false)), cv: Condvar::new() });
        let gb = Arc::new(Gate { state: Mutex::new((false, false)), cv: Condvar::new() });
        let (ca, cb) = (ga.clone(), gb.clone());
        crate::verif_hooks::install(Some(Arc::new(move |name: &'static str| {
            let t = std::thread::current();
            match t.name() {
                Some("goldverif-ta") if name == hook_a => park(&ca),
                Some("goldverif-tb") if name == hook_b => park(&cb),
                _ => (),
            }
        })));
        let spawn = |tname: &str| {
            let pm = w.pm.clone(); let uri = w.uri.clone(); let k = kind.to_string();
            let changer = b_changes && tname == "goldverif-tb";
            let (tx, rx) = std::sync::mpsc::channel();
            let (txa, rxa) = std::sync::mpsc::channel::<String>();
            let _ = std::thread::Builder::new().name(tname.to_string()).spawn(move || {
                let a = if changer {
                    let mut pm = pm; let pool = ThreadPool::new(1, Box::new(Silent));
                    let _ = pm.notify_document_changed(&uri, &text(2), &pool);
                    "CHANGED".to_string()
                } else { request_exact(&pm, &uri, &k, version) };
                let _ = tx.send(()); let _ = txa.send(a); }).unwrap();
            (rxa, rx)
        };
        // wait until the request is parked at its gate, has finished, or the time is up
        let parked_or_done = |g: &Gate, rx: &std::sync::mpsc::Receiver<()>, ms: u64, done: &mut bool| -> bool {
            let t0 = std::time::Instant::now();
            loop {
                if wait_reached(g, 5) { return true; }
                if !*done && rx.try_recv().is_ok() { *done = true; }
                if *done || t0.elapsed() > Duration::from_millis(ms) { return false; }
            }
        };
        let (mut done_a, mut done_b) = (false, false);
        let (ha, rxa) = spawn("goldverif-ta");
        let ra = parked_or_done(&ga, &rxa, 3000, &mut done_a);
        let (hb, rxb) = spawn("goldverif-tb");
        let rb = parked_or_done(&gb, &rxb, 700, &mut done_b);
        if a_first {
            open(&ga); if !done_a { let _ = rxa.recv_timeout(Duration::from_millis(400)); } open(&gb);
        } else {
            open(&gb); if !done_b { let _ = rxb.recv_timeout(Duration::from_millis(400)); } open(&ga);
        }
        // the threads are not joined: one that never returns must not take the engine with it
        let a1 = ha.recv_timeout(Duration::from_secs(8)).unwrap_or_else(|_| "HANG".to_string());
        let a2 = hb.recv_timeout(Duration::from_secs(8)).unwrap_or_else(|_| "HANG".to_string());
        crate::verif_hooks::install(None);
        if a1 == "HANG" || a2 == "HANG" {
            std::mem::forget(w);      // the stuck threads still use this world
            return format!("HANG r1={} r2={} hook={} hookb={}", a1 == "HANG", a2 == "HANG", ra, rb);
        }
        let mut out = Vec::new();
        for (n, a) in [("r1", &a1), ("r2", &a2)] {
            if a == "CHANGED" { continue; }
            let v = version_of(kind, a);
            let same = match v.parse::<usize>() { Ok(k) => *a == solo(kind, k), Err(_) => false };
            out.push(format!("{}={}/{}", n, v, same));
        }
        return format!("{} hook={} hookb={}", out.join(" "), ra, rb);
    }
    if scenario == "tree_vs_change" {
        let mut w = world(0);
        let gate = Arc::new(Gate { state: Mutex::new((false, false)), cv: Condvar::new() });
        let g2 = gate.clone();
        crate::verif_hooks::install(Some(Arc::new(move |name: &'static str| {
            if name == "change:between_reset_and_install" { park(&g2); }
        })));
        let pm1 = w.pm.clone(); let uri1 = w.uri.clone();
        let changer = std::thread::spawn(move || {
            let mut pm = pm1; let pool = ThreadPool::new(1, Box::new(Silent));
            let _ = pm.notify_document_changed(&uri1, &text(1), &pool);
        });
        let reached = wait_reached(&gate, 3000);
        let pm2 = w.pm.clone();
        let (tx, rx) = std::sync::mpsc::channel();
        let builder = std::thread::spawn(move || {
            let pool = ThreadPool::new(3, Box::new(Silent));
            pm2.entity_tree_service.build_tree_parallel(&pm2.doc_service, &pool);
            drop(pool);
            let _ = tx.send(());
        });
        let _ = rx.recv_timeout(Duration::from_millis(300));
        open(&gate);
        let _ = changer.join();
        if rx.recv_timeout(Duration::from_secs(8)).is_err() && builder.is_finished() == false {
            crate::verif_hooks::install(None);
            std::mem::forget(w);
            return format!("HANG tree build hook={}", reached);
        }
        let _ = builder.join();
        crate::verif_hooks::install(None);
        let sup = match w.pm.prepare_type_hierarchy(&w.uri, &Position::new(1, 8)) {
            Ok(items) if !items.is_empty() => match w.pm.type_hierarchy_supertypes(&items[0]) {
                Ok(s) => s.iter().map(|i| i.name.clone()).collect::<Vec<_>>().join(","),
                Err(e) => format!("ERR {}", e.msg.replace(' ', "_")),
            },
            Ok(_) => "NOITEM".to_string(),
            Err(e) => format!("ERR {}", e.msg.replace(' ', "_")),
        };
        return format!("tree={} hook={}", if sup.is_empty() { "-".to_string() } else { sup }, reached);
    }
    let (hook_name, changer): (&'static str, bool) = match scenario {
        "change_window" => ("change:between_reset_and_install", true),
        "analyze_pair" => ("analyze:after_cache_check", false),
        "publish_pair" => ("annotate:after_publish_tree", false),
        "parse_pair" => ("doc:between_read_and_write_lock", false),
        _ => return "BADSCENARIO".to_string(),
    };
    let mut w = world(0);
    if scenario != "parse_pair" {
        let _ = w.pm.notify_document_changed(&w.uri, &text(1), &w.pool);
    }
    if changer {
        // sanity: alone, the request sees version 1
        let a = request(&w.pm, &w.uri, kind, 1);
        if version_of(kind, &a) != "1" { return format!("SETUP-BAD {}", a); }
    }
    let gate = Arc::new(Gate { state: Mutex::new((false, false)), cv: Condvar::new() });
    let g2 = gate.clone();
    // the FIRST thread to reach the hook parks there until released (or 5 s)
    crate::verif_hooks::install(Some(Arc::new(move |name: &'static str| {
        if name != hook_name { return; }
        let mut st = g2.state.lock().unwrap();
        if st.0 { return; }
        st.0 = true;
        g2.cv.notify_all();
        let deadline = std::time::Instant::now() + Duration::from_secs(5);
        while !st.1 {
            let left = deadline.saturating_duration_since(std::time::Instant::now());
            if left.is_zero() { break; }
            st = g2.cv.wait_timeout(st, left).unwrap().0;
        }
    })));
    let hint = if scenario == "parse_pair" { 0 } else { 1 };
    let pm1 = w.pm.clone(); let uri1 = w.uri.clone(); let kind1 = kind.to_string();
    let first = std::thread::spawn(move || {
        if changer {
            let mut pm = pm1; let pool = ThreadPool::new(1, Box::new(Silent));
            let _ = pm.notify_document_changed(&uri1, &text(2), &pool);
            String::new()
        } else {
            request_exact(&pm1, &uri1, &kind1, hint)
        }
    });
    // wait until the first thread is parked at the hook
    let reached = {
        let st = gate.state.lock().unwrap();
        let (st, _) = gate.cv.wait_timeout_while(st, Duration::from_secs(3), |s| !s.0).unwrap();
        st.0
    };
    let pm2 = w.pm.clone(); let uri2 = w.uri.clone(); let kind2 = kind.to_string();
    let (tx, rx) = std::sync::mpsc::channel();
    let second = std::thread::spawn(move || {
        let a = if changer { request(&pm2, &uri2, &kind2, hint) } else { request_exact(&pm2, &uri2, &kind2, hint) };
        let _ = tx.send(()); a });
    // give the second request time to finish (it may legitimately block until the first moves on)
    let _ = rx.recv_timeout(Duration::from_millis(400));
    { let mut st = gate.state.lock().unwrap(); st.1 = true; gate.cv.notify_all(); }
    let a1 = first.join().unwrap_or_else(|_| "PANIC".to_string());
    let a2 = second.join().unwrap_or_else(|_| "PANIC".to_string());
    crate::verif_hooks::install(None);
    let v2 = version_of(kind, &a2);
    let same2 = match v2.parse::<usize>() { Ok(k) => a2 == solo(kind, k), Err(_) => false };
    if changer {
        format!("r2={}/{} hook={}", v2, same2, reached)
    } else {
        let v1 = version_of(kind, &a1);
        let same1 = match v1.parse::<usize>() { Ok(k) => a1 == solo(kind, k), Err(_) => false };
        format!("r1={}/{} r2={}/{} hook={}", v1, same1, v2, same2, reached)
    }
}
}
