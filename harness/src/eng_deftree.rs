//! E-deftree (C10/C11 at tree level, one document): text (code points; anything after '@' is ignored)
//!   -> real lexer (positions = start / middle / end of EVERY identifier token) + parse_gold (tree dump, file stem)
//!   -> a temp workspace holding the text as <stem>.god, ProjectManager::new + index_files
//!   -> generate_goto_definitions and generate_completion_proposals at every position.
//! stem = the identifier of the first class / module child of the root when it is a plain file name, else aNoHeader.
//! result: "<tree dump>@<stem cps>@<l:c,l:c,...>#<answer;answer;...>"
//!   answer = D<links>C<labels>
//!   links  = `sl:sc:el:ec/sl:sc:el:ec` (target_selection_range / target_range) joined by ',' in the order returned,
//!            `-` when empty, suffix `!<stem>` on a link whose target is another file; `ERR` / `PANIC`
//!   labels = code points of each label joined by ',' in the order returned, `-` when empty; `ERR` / `PANIC`
use std::path::PathBuf;
use std::sync::atomic::{AtomicUsize, Ordering};

use crate::common::{cps_to_string, string_to_cps};
use crate::lexer::tokens::TokenType;
use crate::lexer::GoldLexer;
use crate::manager::ProjectManager;
use crate::parser::ast::{AstClass, AstModule, IAstNode};
use crate::parser::parse_gold;
use crate::treedump::dump_tree;
use crate::utils::{ILoggerV2, LogLevel, LogType, Position};

#[derive(Debug, Clone)]
struct SilentLogger;
impl ILoggerV2 for SilentLogger {
    fn log_error(&self, _msg: &str) {}
    fn log_warning(&self, _msg: &str) {}
    fn log_info(&self, _msg: &str) {}
    fn log(&self, _log_type: LogType, _level: LogLevel, _msg: &str) {}
    fn clone_box(&self) -> Box<dyn ILoggerV2> { Box::new(SilentLogger) }
    fn clone_box_with_appended_prefix(&self, _prefix: &str) -> Box<dyn ILoggerV2> { Box::new(SilentLogger) }
    fn append_prefix(&mut self, _prefix: &str) {}
}

static COUNTER: AtomicUsize = AtomicUsize::new(0);
struct TmpDir(PathBuf);
impl TmpDir {
    fn new() -> TmpDir {
        let n = COUNTER.fetch_add(1, Ordering::SeqCst);
        let p = std::env::temp_dir().join(format!("goldverif-deftree-{}-{}", std::process::id(), n));
        let _ = std::fs::remove_dir_all(&p);
        std::fs::create_dir_all(&p).unwrap();
        TmpDir(p)
    }
}
impl Drop for TmpDir { fn drop(&mut self) { let _ = std::fs::remove_dir_all(&self.0); } }

fn rng(r: &lsp_types::Range) -> String { format!("{}:{}:{}:{}", r.start.line, r.start.character, r.end.line, r.end.character) }

fn stem_of_tree(root: &dyn IAstNode) -> String {
    if let Some(ch) = root.get_children_ref() {
        for c in ch {
            let name = if let Some(k) = c.as_any().downcast_ref::<AstClass>() { Some(k.identifier.get_value_as_str().to_string()) }
                       else if let Some(m) = c.as_any().downcast_ref::<AstModule>() { Some(m.id.get_value_as_str().to_string()) }
                       else { None };
            if let Some(n) = name {
                if !n.is_empty() && n.len() < 60 && n.chars().all(|c| c.is_ascii_alphanumeric() || c == '_') { return n; }
                return "aNoHeader".to_string();
            }
        }
    }
    "aNoHeader".to_string()
}

fn run(text: String) -> String {
    let mut lexer = GoldLexer::new();
    let (toks, _errs) = lexer.lex(&text);
    let mut positions: Vec<(usize, usize)> = Vec::new();
    for t in toks.iter() {
        if t.token_type == TokenType::Identifier {
            let (l, a, b) = (t.range.start.line, t.range.start.character, t.range.end.character);
            for c in [a, (a + b) / 2, b] { if !positions.contains(&(l, c)) { positions.push((l, c)); } }
        }
    }
    let ((_rest, root), _diags) = parse_gold(&toks);
    let dump = dump_tree(root.as_ref());
    let stem = stem_of_tree(root.as_ref());
    let dir = TmpDir::new();
    let path = dir.0.join(format!("{}.god", stem));
    std::fs::write(&path, text.as_bytes()).unwrap();
    let root_uri = lsp_types::Url::from_file_path(&dir.0).unwrap();
    let mut pm = match ProjectManager::new(Some(root_uri), Box::new(SilentLogger)) {
        Ok(pm) => pm,
        Err(e) => return format!("X cannot create the project manager {}#", e.msg.replace('#', " ")),
    };
    pm.index_files();
    let uri = lsp_types::Url::from_file_path(&path).unwrap();
    let mut answers: Vec<String> = Vec::with_capacity(positions.len());
    for (l, c) in positions.iter() {
        let pos = Position::new(*l, *c);
        let d = crate::common::guarded(|| match pm.generate_goto_definitions(&uri, &pos) {
            Ok(links) => {
                if links.is_empty() { return "-".to_string(); }
                links.iter().map(|k| {
                    let own = k.target_uri == uri;
                    format!("{}/{}{}", rng(&k.target_selection_range), rng(&k.target_range),
                            if own { "".to_string() } else { format!("!{}", k.target_uri.path().rsplit('/').next().unwrap_or("?")) })
                }).collect::<Vec<_>>().join(",")
            }
            Err(_) => "ERR".to_string(),
        });
        let c = crate::common::guarded(|| match pm.generate_completion_proposals(&uri, &pos) {
            Ok(items) => {
                if items.is_empty() { return "-".to_string(); }
                items.iter().map(|i| if i.label.is_empty() { "~".to_string() } else { string_to_cps(&i.label) }).collect::<Vec<_>>().join(",")
            }
            Err(_) => "ERR".to_string(),
        });
        let clean = |s: String| if s.starts_with("PANIC") { "PANIC".to_string() } else { s };
        answers.push(format!("D{}C{}", clean(d), clean(c)));
    }
    drop(dir);
    format!("{}@{}@{}#{}", dump, string_to_cps(&stem),
            positions.iter().map(|(l, c)| format!("{}:{}", l, c)).collect::<Vec<_>>().join(","),
            answers.join(";"))
}

pub fn run_case(line: &str) -> String {
    let text = cps_to_string(line.split('@').next().unwrap_or("").trim());
    let h = std::thread::Builder::new().stack_size(256 << 20).spawn(move || run(text)).unwrap();
    match h.join() {
        Ok(s) => s,
        Err(_) => "X parse-or-setup-panic#".to_string(),
    }
}
