//! E-sem / E-sched for C13 and C14 (engine `forest`): the class tree, the type hierarchy and the
//! termination of every request on a materialised workspace, through the in-process ProjectManager.
//!
//! case:   <mode>|<file>;<file>;...
//!   file    = stem~cls~par~uses~members~probes~text
//!     cls     = `-` | Name:line:col        the class declared by the file (position of the name token)
//!     par     = `-` | Name:line:col        the parent-class token
//!     uses    = `-` | Name+Name+...
//!     members = `-` | name:kind:line:col+...   kind p (proc) f (func) v (field); position of the name token
//!     probes  = `-` | line:col+...          positions inside method bodies (C14 definition / completion)
//!     text    = the file content as code points `99.108.97...`
//!   mode    = seq                 EntityTreeService::build_tree (sequential builder)
//!           | par:<chunk>:<k>     EntityTreeService::new(chunk).build_tree_parallel on a pool of k workers
//!           | edit:<k>            file k is on disk without its members (its text cut before the first member's line) when
//!                                 the tree is built and every query is asked a first time; then didChange(k, full
//!                                 text) and every query again (reported): the answers are those of the full texts
//!           | sched:<kind>        HOOKS build: chunk 1, one worker per file, a controller at
//!                                 `entity:between_lookup_and_insert` pairs the workers up: a worker that
//!                                 reaches the point (its look-up missed) is parked until another worker
//!                                 has missed its look-up too, then both insert (kind rvA: the first
//!                                 arrival inserts first, rvB: the second one); a lone worker leaves after
//!                                 a timeout, so a schedule that does not reproduce cannot hang the engine
//!           | req:<order>         C14: order f (files as listed), r (reversed) or s<k> (as listed; file k lacks its parent clause
//!                                 until a didSave between the two rounds brings the full text); the tree is built as main_loop
//!                                 does (chunk 15000, 7 workers); every request kind on every file, each on
//!                                 its own thread with a 10 s deadline, two rounds
//! result (seq / par / sched):  entries joined by `;`, one per class and per member, in case order
//!     entry  = c.<stem>[<prepare>|<supertypes>|<subtypes>]  |  m.<stem>.<member>[...]
//!     each of the three = `ERR` | items sorted, joined by `,`;  item = NAMEUPPER@stem@sl:sc-el:ec=ExactName
//!   `HANG` when the case does not finish within 30 s, `NOHOOKS` for sched without the hooks build
//!           | conc:<iters>        C14 stress for requests served concurrently: <iters> times a fresh manager, one
//!                                 thread per file doing the diagnostics request at the same moment (HOOKS build:
//!                                 the threads are paired up at `annotate:after_publish_tree`), then every file
//!                                 once more, sequentially; each with the 10 s deadline
//! result (req): round1#round2, round = <number of requests>:<number answered with an error>:<bad>
//!     bad = <request>=HANG|PANIC|skip joined by `,` (after the first HANG of a case the rest is `skip`)
//! result (conc): `conc=ok` | `conc=HANG:<iteration>:<request>` | `conc=PANIC:<iteration>:<request>`
use std::path::PathBuf;
use std::sync::atomic::{AtomicUsize, Ordering};
use std::sync::{mpsc, Arc, Condvar, Mutex};
use std::time::{Duration, Instant};

use lsp_types::{TypeHierarchyItem, Url};

use crate::common::cps_to_string;
use crate::manager::entity_tree_service::EntityTreeService;
use crate::manager::ProjectManager;
use crate::threadpool::ThreadPool;
use crate::utils::{ILoggerV2, LogLevel, LogType, Position};

#[derive(Debug, Clone)]
struct SilentLogger;
impl ILoggerV2 for SilentLogger {
    fn log_error(&self, _msg: &str) {}
    fn log_warning(&self, _msg: &str) {}
    fn log_info(&self, _msg: &str) {}
    fn log(&self, _log_type: LogType, _level: LogLevel, _msg: &str) {}
    fn clone_box(&self) -> Box<dyn ILoggerV2> { Box::new(SilentLogger) }
    fn clone_box_with_appended_prefix(&self, _prefix: &str) -> Box<dyn ILoggerV2> { Box::new(SilentLogger) }
    fn append_prefix(&mut self, _prefix: &str) {}
}

static COUNTER: AtomicUsize = AtomicUsize::new(0);

struct TmpDir(PathBuf);
impl TmpDir {
    fn new() -> TmpDir {
        let n = COUNTER.fetch_add(1, Ordering::SeqCst);
        let p = std::env::temp_dir().join(format!("goldverif-forest-{}-{}", std::process::id(), n));
        let _ = std::fs::remove_dir_all(&p);
        std::fs::create_dir_all(&p).unwrap();
        TmpDir(p)
    }
}
impl Drop for TmpDir {
    fn drop(&mut self) { let _ = std::fs::remove_dir_all(&self.0); }
}

#[derive(Clone, Debug)]
struct Tok { name: String, line: usize, col: usize }

#[derive(Clone, Debug)]
struct FileSpec {
    stem: String,
    cls: Option<Tok>,
    par: Option<Tok>,
    members: Vec<Tok>,
    probes: Vec<(usize, usize)>,
    text: String,
}

fn parse_tok(s: &str) -> Option<Tok> {
    if s == "-" || s.is_empty() { return None; }
    let f: Vec<&str> = s.split(':').collect();
    // Name:line:col  or  name:kind:line:col
    let n = f.len();
    Some(Tok { name: f[0].to_string(), line: f[n - 2].parse().unwrap(), col: f[n - 1].parse().unwrap() })
}

fn parse_file(s: &str) -> FileSpec {
    let f: Vec<&str> = s.split('~').collect();
    assert!(f.len() == 7, "bad file spec");
    let members = if f[4] == "-" { vec![] } else { f[4].split('+').filter_map(parse_tok).collect() };
    let probes = if f[5] == "-" { vec![] } else {
        f[5].split('+').map(|p| { let q: Vec<&str> = p.split(':').collect(); (q[0].parse().unwrap(), q[1].parse().unwrap()) }).collect()
    };
    FileSpec { stem: f[0].to_string(), cls: parse_tok(f[1]), par: parse_tok(f[2]), members, probes, text: cps_to_string(f[6]) }
}

struct Ws {
    dir: TmpDir,
    files: Vec<FileSpec>,
}
impl Ws {
    fn materialise(files: Vec<FileSpec>) -> Ws {
        let dir = TmpDir::new();
        for f in &files {
            std::fs::write(dir.0.join(format!("{}.god", f.stem)), f.text.as_bytes()).unwrap();
        }
        Ws { dir, files }
    }
    fn uri(&self, stem: &str) -> Url {
        // index_files canonicalises the root; the scratch directory is canonical already
        let root = std::fs::canonicalize(&self.dir.0).unwrap();
        Url::from_file_path(root.join(format!("{}.god", stem))).unwrap()
    }
    fn root_uri(&self) -> Url { Url::from_file_path(std::fs::canonicalize(&self.dir.0).unwrap()).unwrap() }
}

fn stem_of(uri: &Url) -> String {
    uri.to_file_path().ok()
        .and_then(|p| p.file_stem().map(|s| s.to_string_lossy().to_string()))
        .unwrap_or_else(|| format!("?{}", uri))
}

fn canon_items(r: Result<Vec<TypeHierarchyItem>, crate::manager::data_structs::ProjectManagerError>) -> String {
    match r {
        Err(_) => "ERR".to_string(),
        Ok(items) => {
            let mut v: Vec<String> = items.iter().map(|it| {
                let s = it.selection_range;
                format!("{}@{}@{}:{}-{}:{}={}", it.name.to_uppercase(), stem_of(&it.uri),
                        s.start.line, s.start.character, s.end.line, s.end.character, it.name)
            }).collect();
            v.sort();
            v.join(",")
        }
    }
}

// ------------------------------------------------------------------------------------------
// forced schedules (hooks build)
// ------------------------------------------------------------------------------------------
#[cfg(gold_lsp_verif)]
mod forced {
    use super::*;
    pub struct Rendezvous {
        // (number of threads parked, generation, id of the pair's first arrival still to be released)
        pub state: Mutex<(usize, u64)>,
        pub cv: Condvar,
        pub second_first: bool,
        pub pairs: AtomicUsize,
        pub lone: AtomicUsize,
    }
    pub fn install(second_first: bool) -> Arc<Rendezvous> {
        install_at("entity:between_lookup_and_insert", second_first)
    }
    pub fn install_at(point: &'static str, second_first: bool) -> Arc<Rendezvous> {
        let rv = Arc::new(Rendezvous { state: Mutex::new((0, 0)), cv: Condvar::new(), second_first,
                                       pairs: AtomicUsize::new(0), lone: AtomicUsize::new(0) });
        let rv2 = rv.clone();
        crate::verif_hooks::install(Some(Arc::new(move |name: &'static str| {
            if name != point { return; }
            let rv = &rv2;
            let mut g = rv.state.lock().unwrap();
            if g.0 > 0 {
                // somebody is parked: we are the second arrival of this pair; release it
                g.0 -= 1;
                g.1 += 1;
                rv.pairs.fetch_add(1, Ordering::SeqCst);
                rv.cv.notify_all();
                drop(g);
                if !rv.second_first {
                    // let the first arrival insert first (timing only orders the two inserts, both
                    // orders are legal schedules; the look-ups have both happened already)
                    std::thread::sleep(Duration::from_millis(15));
                }
            } else {
                g.0 += 1;
                let gen = g.1;
                let deadline = Instant::now() + Duration::from_millis(250);
                loop {
                    let now = Instant::now();
                    if g.1 != gen { break; }
                    if now >= deadline {
                        // nobody came: leave alone (the schedule did not reproduce here)
                        if g.1 == gen { g.0 -= 1; rv.lone.fetch_add(1, Ordering::SeqCst); }
                        break;
                    }
                    let (g2, _) = rv.cv.wait_timeout(g, deadline - now).unwrap();
                    g = g2;
                }
                let released = g.1 != gen;
                drop(g);
                if released && rv.second_first {
                    std::thread::sleep(Duration::from_millis(15));
                }
            }
        })));
        rv
    }
    pub fn uninstall() { crate::verif_hooks::install(None); }
}

// ------------------------------------------------------------------------------------------
// C13: build the tree in the requested mode and query the whole hierarchy
// ------------------------------------------------------------------------------------------
fn hierarchy(ws: &Ws, mode: &str) -> String {
    let mut pm = match ProjectManager::new(Some(ws.root_uri()), Box::new(SilentLogger)) {
        Ok(pm) => pm,
        Err(e) => return format!("ERR-NEW {}", e.msg.replace('\n', " ")),
    };
    pm.index_files();
    let m: Vec<&str> = mode.split(':').collect();
    match m[0] {
        "seq" => { pm.entity_tree_service.build_tree(&pm.doc_service); }
        "par" => {
            let chunk: usize = m[1].parse().unwrap();
            let k: usize = m[2].parse().unwrap();
            pm.entity_tree_service = EntityTreeService::new(chunk, Box::new(SilentLogger));
            let pool = ThreadPool::new(k, Box::new(SilentLogger));
            pm.entity_tree_service.build_tree_parallel(&pm.doc_service, &pool);
            drop(pool); // joins the workers: every chunk has been processed
        }
        "sched" => {
            #[cfg(gold_lsp_verif)]
            {
                let rv = forced::install(m[1] == "rvB");
                pm.entity_tree_service = EntityTreeService::new(1, Box::new(SilentLogger));
                let pool = ThreadPool::new(ws.files.len().max(1), Box::new(SilentLogger));
                pm.entity_tree_service.build_tree_parallel(&pm.doc_service, &pool);
                drop(pool);
                forced::uninstall();
                let _ = rv;
            }
            #[cfg(not(gold_lsp_verif))]
            { return "NOHOOKS".to_string(); }
        }
        "edit" => {
            // the tree is built as main_loop does; file k starts WITHOUT its members (see run_case), every query is asked
            // once (caches warm: symbol tables of k's dependents are chained to k's member-less table), then a didChange
            // brings k's full text and every query is asked again: only the second round is reported
            pm.entity_tree_service = EntityTreeService::new(15000, Box::new(SilentLogger));
            let pool = ThreadPool::new(7, Box::new(SilentLogger));
            pm.entity_tree_service.build_tree_parallel(&pm.doc_service, &pool);
            drop(pool);
            let _ = query_all(&mut pm, ws);
            let k: usize = m[1].parse().unwrap();
            if let Some(f) = ws.files.get(k) {
                let pool = ThreadPool::new(2, Box::new(SilentLogger));
                let _ = pm.notify_document_changed(&ws.uri(&f.stem), &f.text, &pool);
                drop(pool);
            }
        }
        _ => panic!("bad mode {}", mode),
    }
    query_all(&mut pm, ws).join(";")
}

fn query_all(pm: &mut ProjectManager, ws: &Ws) -> Vec<String> {
    let mut out: Vec<String> = Vec::new();
    for f in &ws.files {
        let uri = ws.uri(&f.stem);
        let mut queries: Vec<(String, &Tok)> = Vec::new();
        if let Some(c) = &f.cls { queries.push((format!("c.{}", f.stem), c)); }
        for mb in &f.members { queries.push((format!("m.{}.{}", f.stem, mb.name), mb)); }
        for (tag, tok) in queries {
            let pos = Position::new(tok.line, tok.col + 1);
            let prep = pm.prepare_type_hierarchy(&uri, &pos);
            let (sup, sub) = match &prep {
                Ok(items) if items.len() == 1 => (
                    canon_items(pm.type_hierarchy_supertypes(&items[0])),
                    canon_items(pm.type_hierarchy_subtypes(&items[0]))),
                _ => ("-".to_string(), "-".to_string()),
            };
            out.push(format!("{}[{}|{}|{}]", tag, canon_items(prep), sup, sub));
        }
    }
    out
}

// ------------------------------------------------------------------------------------------
// C14: every request kind on every file, each on its own thread with a deadline, two rounds
// ------------------------------------------------------------------------------------------
const REQ_DEADLINE: Duration = Duration::from_secs(10);

/// runs f on its own (2 MB, as the server's pool threads) thread; ok / er / HANG / PANIC
fn timed<F: FnOnce() -> bool + Send + 'static>(f: F) -> &'static str {
    let (tx, rx) = mpsc::channel::<Result<bool, ()>>();
    let h = std::thread::Builder::new().stack_size(2 << 20).spawn(move || {
        let r = std::panic::catch_unwind(std::panic::AssertUnwindSafe(f));
        let _ = tx.send(r.map_err(|_| ()));
    }).unwrap();
    match rx.recv_timeout(REQ_DEADLINE) {
        Ok(Ok(true)) => { let _ = h.join(); "ok" }
        Ok(Ok(false)) => { let _ = h.join(); "er" }
        Ok(Err(())) => { let _ = h.join(); "PANIC" }
        Err(_) => "HANG",   // the thread is left behind, holding whatever it holds
    }
}

fn requests(ws: &Ws, order: &str) -> String {
    let pm0 = match ProjectManager::new(Some(ws.root_uri()), Box::new(SilentLogger)) {
        Ok(pm) => pm,
        Err(e) => return format!("ERR-NEW {}", e.msg.replace('\n', " ")),
    };
    let mut files: Vec<FileSpec> = ws.files.clone();
    if order == "r" { files.reverse(); }
    // order s<k>: file k is on disk WITHOUT its parent clause during start-up and the first round; before the second
    // round its full text is written and didSave is notified (a save is how a parent cycle comes into a running server)
    let save_k: Option<usize> = order.strip_prefix('s').and_then(|x| x.parse().ok());
    if let Some(f) = save_k.and_then(|k| ws.files.get(k)) {
        if let Some(p) = &f.par {
            let mut lines: Vec<String> = f.text.split_inclusive('\n').map(|l| l.to_string()).collect();
            if let Some(line) = lines.get_mut(p.line) {
                let chars: Vec<char> = line.chars().collect();
                let open = chars[..p.col.min(chars.len())].iter().rposition(|c| *c == '(');
                let close = chars.iter().skip(p.col).position(|c| *c == ')').map(|i| i + p.col);
                if let (Some(o), Some(c)) = (open, close) {
                    let o = if o > 0 && chars[o - 1] == ' ' { o - 1 } else { o };
                    *line = chars[..o].iter().chain(chars[c + 1..].iter()).collect();
                }
            }
            let _ = std::fs::write(ws.dir.0.join(format!("{}.god", f.stem)), lines.concat().as_bytes());
        }
    }
    let mut rounds: Vec<String> = Vec::new();
    let mut hung = false;
    let mut first = true;
    for _round in 0..2 {
        let mut outs: Vec<String> = Vec::new();
        if _round == 1 {
            if let Some(f) = save_k.and_then(|k| ws.files.get(k)) {
                let _ = std::fs::write(ws.dir.0.join(format!("{}.god", f.stem)), f.text.as_bytes());
                let mut pm = pm0.clone();
                let u = ws.uri(&f.stem);
                let r = timed(Box::new(move || {
                    let pool = ThreadPool::new(2, Box::new(SilentLogger));
                    let ok = pm.notify_document_saved(&u, &pool).is_ok();
                    drop(pool);
                    ok
                }));
                if r == "HANG" || r == "PANIC" { hung = r == "HANG"; outs.push(format!("save.{}={}", f.stem, r)); }
            }
        }
        let mut run = |name: String, f: Box<dyn FnOnce() -> bool + Send>, outs: &mut Vec<String>| {
            if hung { outs.push(format!("{}=skip", name)); return; }
            let r = timed(f);
            if r == "HANG" { hung = true; }
            outs.push(format!("{}={}", name, r));
        };
        if first {
            // start-up exactly as main_loop: index, then the class tree through the pool
            let mut pm = pm0.clone();
            run("index".to_string(), Box::new(move || { pm.index_files(); true }), &mut outs);
            let pm = pm0.clone();
            run("tree".to_string(), Box::new(move || {
                let pool = ThreadPool::new(7, Box::new(SilentLogger));
                pm.entity_tree_service.build_tree_parallel(&pm.doc_service, &pool);
                drop(pool);
                true
            }), &mut outs);
            first = false;
        }
        for f in &files {
            let uri = ws.uri(&f.stem);
            // diagnostics
            { let mut pm = pm0.clone(); let u = uri.clone();
              run(format!("diag.{}", f.stem), Box::new(move || pm.generate_document_diagnostic_report(&u).is_ok()), &mut outs); }
            // definition + completion: inside the methods and on the parent-class token
            let mut points: Vec<(String, usize, usize)> = Vec::new();
            for (k, (l, c)) in f.probes.iter().enumerate() { points.push((format!("b{}", k), *l, *c)); }
            if let Some(p) = &f.par { points.push(("par".to_string(), p.line, p.col + 1)); }
            if let Some(c) = &f.cls { points.push(("cls".to_string(), c.line, c.col + 1)); }
            for (pn, l, c) in &points {
                { let mut pm = pm0.clone(); let u = uri.clone(); let (l, c) = (*l, *c);
                  run(format!("def.{}.{}", f.stem, pn), Box::new(move || pm.generate_goto_definitions(&u, &Position::new(l, c)).is_ok()), &mut outs); }
                { let mut pm = pm0.clone(); let u = uri.clone(); let (l, c) = (*l, *c);
                  run(format!("comp.{}.{}", f.stem, pn), Box::new(move || pm.generate_completion_proposals(&u, &Position::new(l, c)).is_ok()), &mut outs); }
            }
            // hierarchy: prepare + supertypes + subtypes on the class, the parent token and every member
            let mut hpoints: Vec<(String, usize, usize)> = Vec::new();
            if let Some(c) = &f.cls { hpoints.push(("cls".to_string(), c.line, c.col + 1)); }
            if let Some(p) = &f.par { hpoints.push(("par".to_string(), p.line, p.col + 1)); }
            for mb in &f.members { hpoints.push((format!("m{}", mb.name), mb.line, mb.col + 1)); }
            for (pn, l, c) in &hpoints {
                let slot: Arc<Mutex<Option<TypeHierarchyItem>>> = Arc::new(Mutex::new(None));
                { let mut pm = pm0.clone(); let u = uri.clone(); let (l, c) = (*l, *c); let slot = slot.clone();
                  run(format!("prep.{}.{}", f.stem, pn), Box::new(move || {
                      match pm.prepare_type_hierarchy(&u, &Position::new(l, c)) {
                          Ok(items) => { *slot.lock().unwrap() = items.into_iter().next(); true }
                          Err(_) => false,
                      }
                  }), &mut outs); }
                let item = slot.lock().map(|g| g.clone()).unwrap_or(None);
                // without an item from prepare, ask with a hand-made one (a client may send any item)
                let item = item.unwrap_or(TypeHierarchyItem {
                    name: f.cls.as_ref().map(|c| c.name.clone()).unwrap_or(f.stem.clone()),
                    kind: lsp_types::SymbolKind::CLASS, tags: None, detail: None, uri: uri.clone(),
                    range: lsp_types::Range::default(), selection_range: lsp_types::Range::default(), data: None });
                { let mut pm = pm0.clone(); let it = item.clone();
                  run(format!("sup.{}.{}", f.stem, pn), Box::new(move || pm.type_hierarchy_supertypes(&it).is_ok()), &mut outs); }
                { let mut pm = pm0.clone(); let it = item.clone();
                  run(format!("sub.{}.{}", f.stem, pn), Box::new(move || pm.type_hierarchy_subtypes(&it).is_ok()), &mut outs); }
            }
            // a client may send any item: a member that no class declares makes both walkers visit the
            //  whole chain above / the whole subtree below the class
            if f.cls.is_some() {
                let ghost = TypeHierarchyItem {
                    name: "zzNoSuchMember".to_string(), kind: lsp_types::SymbolKind::FUNCTION, tags: None,
                    detail: f.cls.as_ref().map(|c| c.name.clone()), uri: uri.clone(),
                    range: lsp_types::Range::default(), selection_range: lsp_types::Range::default(), data: None };
                { let mut pm = pm0.clone(); let it = ghost.clone();
                  run(format!("sup.{}.ghost", f.stem), Box::new(move || pm.type_hierarchy_supertypes(&it).is_ok()), &mut outs); }
                { let mut pm = pm0.clone(); let it = ghost.clone();
                  run(format!("sub.{}.ghost", f.stem), Box::new(move || pm.type_hierarchy_subtypes(&it).is_ok()), &mut outs); }
            }
        }
        let n = outs.len();
        let er = outs.iter().filter(|o| o.ends_with("=er")).count();
        let bad: Vec<String> = outs.into_iter().filter(|o| !(o.ends_with("=ok") || o.ends_with("=er"))).collect();
        rounds.push(format!("{}:{}:{}", n, er, bad.join(",")));
    }
    rounds.join("#")
}

fn concurrent(ws: &Ws, iters: usize) -> String {
    for it in 0..iters {
        let pm0 = match ProjectManager::new(Some(ws.root_uri()), Box::new(SilentLogger)) {
            Ok(pm) => pm,
            Err(e) => return format!("ERR-NEW {}", e.msg.replace('\n', " ")),
        };
        { let mut pm = pm0.clone(); pm.index_files(); }
        {
            let pool = ThreadPool::new(7, Box::new(SilentLogger));
            pm0.entity_tree_service.build_tree_parallel(&pm0.doc_service, &pool);
            drop(pool);
        }
        #[cfg(gold_lsp_verif)]
        let _rv = forced::install_at("annotate:after_publish_tree", it % 2 == 1);
        let n = ws.files.len();
        let barrier = Arc::new(std::sync::Barrier::new(n));
        let (tx, rx) = mpsc::channel::<(usize, bool)>();
        for (k, f) in ws.files.iter().enumerate() {
            let mut pm = pm0.clone();
            let uri = ws.uri(&f.stem);
            let barrier = barrier.clone();
            let tx = tx.clone();
            let _ = std::thread::Builder::new().stack_size(2 << 20).spawn(move || {
                barrier.wait();
                let r = std::panic::catch_unwind(std::panic::AssertUnwindSafe(|| { let _ = pm.generate_document_diagnostic_report(&uri); }));
                let _ = tx.send((k, r.is_ok()));
            });
        }
        drop(tx);
        let deadline = Instant::now() + REQ_DEADLINE;
        let mut done = vec![false; n];
        let mut res: Option<String> = None;
        for _ in 0..n {
            let left = deadline.saturating_duration_since(Instant::now());
            match rx.recv_timeout(left) {
                Ok((k, true)) => { done[k] = true; }
                Ok((k, false)) => { res = Some(format!("conc=PANIC:{}:diag.{}", it, ws.files[k].stem)); break; }
                Err(_) => {
                    let k = done.iter().position(|d| !*d).unwrap_or(0);
                    res = Some(format!("conc=HANG:{}:diag.{}", it, ws.files[k].stem));
                    break;
                }
            }
        }
        #[cfg(gold_lsp_verif)]
        forced::uninstall();
        if let Some(r) = res { return r; }
        // afterwards every file once more, one at a time: a cycle installed, or a lock left held,
        // by the concurrent round shows up here
        for f in &ws.files {
            let mut pm = pm0.clone();
            let uri = ws.uri(&f.stem);
            match timed(move || pm.generate_document_diagnostic_report(&uri).is_ok()) {
                "HANG" => return format!("conc=HANG:{}:again.{}", it, f.stem),
                "PANIC" => return format!("conc=PANIC:{}:again.{}", it, f.stem),
                _ => (),
            }
            let mut pm = pm0.clone();
            let uri = ws.uri(&f.stem);
            match timed(move || pm.generate_completion_proposals(&uri, &Position::new(0, 7)).is_ok()) {
                "HANG" => return format!("conc=HANG:{}:comp.{}", it, f.stem),
                "PANIC" => return format!("conc=PANIC:{}:comp.{}", it, f.stem),
                _ => (),
            }
        }
    }
    "conc=ok".to_string()
}

pub fn run_case(line: &str) -> String {
    let line = line.trim().to_string();
    let (mode, rest) = match line.split_once('|') { Some(x) => x, None => return "BADCASE".to_string() };
    let mode = mode.to_string();
    let files: Vec<FileSpec> = rest.split(';').filter(|s| !s.is_empty()).map(parse_file).collect();
    if mode.starts_with("conc") {
        let ws = Ws::materialise(files);
        let iters: usize = mode.split(':').nth(1).and_then(|x| x.parse().ok()).unwrap_or(1);
        return concurrent(&ws, iters);
    }
    if mode.starts_with("req") {
        // deadlines are per request
        let ws = Ws::materialise(files);
        let order = mode.split(':').nth(1).unwrap_or("f").to_string();
        return requests(&ws, &order);
    }
    let ws = Arc::new(Ws::materialise(files));
    if mode.starts_with("edit") {
        // file k starts without its members: its text cut before the line of the first member
        let k: usize = mode.split(':').nth(1).and_then(|x| x.parse().ok()).unwrap_or(0);
        if let Some(f) = ws.files.get(k) {
            if let Some(first) = f.members.iter().map(|m| m.line).min() {
                let cut: String = f.text.split_inclusive('\n').take(first).collect();
                std::fs::write(ws.dir.0.join(format!("{}.god", f.stem)), cut.as_bytes()).unwrap();
            }
        }
    }
    let ws2 = ws.clone();
    let (tx, rx) = mpsc::channel::<String>();
    let h = std::thread::Builder::new().stack_size(2 << 20).spawn(move || {
        let r = crate::common::guarded(|| hierarchy(&ws2, &mode));
        let _ = tx.send(r);
    }).unwrap();
    match rx.recv_timeout(Duration::from_secs(30)) {
        Ok(s) => { let _ = h.join(); s }
        Err(_) => {
            #[cfg(gold_lsp_verif)]
            forced::uninstall();
            let _ = std::fs::remove_dir_all(&ws.dir.0);
            "HANG".to_string()
        }
    }
}
