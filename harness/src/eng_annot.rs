//! E-annot (C10/C11, table-building half of AstAnnotator): text (code points; anything after '@' is ignored)
//!   -> DocumentService::parse_content (the real lexer + parse_gold, what every analysis request runs)
//!   -> SemanticAnalysisService::analyze(doc, doc_info, only_definitions) = AstAnnotator::annotate_doc,
//! once in the full mode and once (fresh document of the same text) in the definitions-only mode.
//! No workspace: a parent class / a class named as a type is "not found" (diagnostics only, the tables are unaffected).
//! result: "<tree dump>#F<tables>|D<tables>"
//!   tables = R<table>{M<table>}*       root table, then the table of every method node in walk order
//!   table  = <cls>[sym sym ...]{uses uses ...}
//!   cls    = "~" (for_class_or_module = None) or code points
//!   sym    = <name cps>/<kind 0..7 = Class Field Type Proc Func Variable Constant Module>/sl:sc:el:ec/sl:sc:el:ec
//!            (selection_range / range), in iter_symbols order
//!   uses   = code points, in get_list_of_uses order
//! A panic of lexer/parser: "X parse-panic#"; a panic of the annotator propagates ("PANIC ...").
use std::panic::{catch_unwind, AssertUnwindSafe};
use std::sync::{Arc, Mutex, RwLock};

use crate::analyzers::AnalyzerDiagnostic;
use crate::analyzers_v2::annotated_node::AnnotatedNode;
use crate::analyzers_v2::symbol_table::{ISymbolTable, SymbolType};
use crate::common::{cps_to_string, string_to_cps};
use crate::manager::data_structs::{Document, DocumentInfo};
use crate::manager::document_service::DocumentService;
use crate::manager::semantic_analysis_service::SemanticAnalysisService;
use crate::parser::ast::IAstNode;
use crate::treedump::dump_tree;
use crate::utils::{GenericDiagnosticCollector, IDiagnosticCollector, ILoggerV2, LogLevel, LogType, Range};

#[derive(Debug, Clone)]
struct SilentLogger;
impl ILoggerV2 for SilentLogger {
    fn log_error(&self, _msg: &str) {}
    fn log_warning(&self, _msg: &str) {}
    fn log_info(&self, _msg: &str) {}
    fn log(&self, _log_type: LogType, _level: LogLevel, _msg: &str) {}
    fn clone_box(&self) -> Box<dyn ILoggerV2> { Box::new(SilentLogger) }
    fn clone_box_with_appended_prefix(&self, _prefix: &str) -> Box<dyn ILoggerV2> { Box::new(SilentLogger) }
    fn append_prefix(&mut self, _prefix: &str) {}
}

fn cps(s: &str) -> String { if s.is_empty() { "-".to_string() } else { string_to_cps(s) } }
fn rng(r: &Range) -> String { format!("{}:{}:{}:{}", r.start.line, r.start.character, r.end.line, r.end.character) }

fn kind_code(k: &SymbolType) -> usize {
    match k {
        SymbolType::Class => 0, SymbolType::Field => 1, SymbolType::Type => 2, SymbolType::Proc => 3,
        SymbolType::Func => 4, SymbolType::Variable => 5, SymbolType::Constant => 6, SymbolType::Module => 7,
    }
}

fn show_table(st: &Arc<Mutex<dyn ISymbolTable>>) -> String {
    let t = st.lock().unwrap();
    let syms: Vec<String> = t.iter_symbols()
        .map(|s| format!("{}/{}/{}/{}", cps(&s.id), kind_code(&s.sym_type), rng(&s.selection_range), rng(&s.range)))
        .collect();
    let uses: Vec<String> = t.get_list_of_uses().iter().map(|u| cps(u)).collect();
    format!("{}[{}]{{{}}}", match t.get_class() { None => "~".to_string(), Some(c) => cps(&c) }, syms.join(" "), uses.join(" "))
}

type ANode = Arc<RwLock<AnnotatedNode<dyn IAstNode>>>;

/// tables attached to nodes other than the root, collected in the order the annotator walks
/// (children of the root pre-order, everything below post-order)
fn collect_post(n: &ANode, out: &mut Vec<String>) {
    let l = n.read().unwrap();
    for c in l.children.iter() { collect_post(c, out); }
    if let Some(st) = &l.symbol_table { out.push(show_table(st)); }
}

fn show_tables(root: &ANode) -> String {
    let l = root.read().unwrap();
    let mut s = String::from("R");
    match &l.symbol_table { Some(st) => s.push_str(&show_table(st)), None => s.push_str("NONE") }
    let mut out = Vec::new();
    for c in l.children.iter() {
        let cl = c.read().unwrap();
        if let Some(st) = &cl.symbol_table { out.push(show_table(st)); }
        for cc in cl.children.iter() { collect_post(cc, &mut out); }
    }
    for t in out { s.push('M'); s.push_str(&t); }
    s
}

fn analyze(ds: &DocumentService, text: &String, only_defs: bool) -> Result<(String, String), String> {
    let doc = match catch_unwind(AssertUnwindSafe(|| ds.parse_content(text))) {
        Ok(Ok(d)) => d,
        Ok(Err(e)) => return Err(format!("X parse-error {}#", e.msg.replace('#', " ").replace('\n', " "))),
        Err(_) => return Err("X parse-panic#".to_string()),
    };
    let dump = dump_tree(doc.get_ast().as_ref());
    let doc = Arc::new(Mutex::new(doc));
    let diag: Arc<Mutex<dyn IDiagnosticCollector<AnalyzerDiagnostic>>> = Arc::new(Mutex::new(GenericDiagnosticCollector::new()));
    let sem = SemanticAnalysisService::new(ds.clone(), Box::new(SilentLogger), diag);
    let doc_info = Arc::new(RwLock::new(DocumentInfo::new("".to_string(), "".to_string())));
    let doc = match sem.analyze(doc, doc_info.clone(), only_defs) {
        Ok(d) => d,
        Err(e) => return Ok((dump, format!("ERR {}", e.msg.replace('#', " ").replace('\n', " ")))),
    };
    let root = doc.lock().unwrap().annotated_ast.as_ref().unwrap().clone();
    let obs = show_tables(&root);
    // the root table is also what DocumentInfo caches for the other files' look-ups
    let same = match (doc_info.read().unwrap().get_symbol_table(), &root.read().unwrap().symbol_table) {
        (Some(a), Some(b)) => Arc::as_ptr(&a) as *const u8 == Arc::as_ptr(b) as *const u8,
        _ => false,
    };
    Ok((dump, if same { obs } else { format!("{}!DOCINFO-TABLE-DIFFERS", obs) }))
}

fn run(text: String) -> String {
    let ds = match DocumentService::new(None, Box::new(SilentLogger)) {
        Ok(d) => d,
        Err(e) => return format!("X docservice {}#", e.msg),
    };
    let (dump, full) = match analyze(&ds, &text, false) { Ok(x) => x, Err(x) => return x };
    let (dump2, defs) = match analyze(&ds, &text, true) { Ok(x) => x, Err(x) => return x };
    if dump != dump2 { return "X parse-not-deterministic#".to_string(); }
    format!("{}#F{}|D{}", dump, full, defs)
}

pub fn run_case(line: &str) -> String {
    let text = cps_to_string(line.split('@').next().unwrap_or("").trim());
    // deep nesting: the annotator, the dump and the parser recurse
    let h = std::thread::Builder::new().stack_size(256 << 20).spawn(move || run(text)).unwrap();
    match h.join() {
        Ok(s) => s,
        Err(e) => {
            let msg = e.downcast_ref::<String>().cloned().or_else(|| e.downcast_ref::<&str>().map(|s| s.to_string())).unwrap_or_default();
            format!("PANIC {}", msg.replace('\n', " "))
        }
    }
}
