//! E-ranges (C08): every range the lexer / parser / outline part of the server produces for a text.
//! case:   "<code points>"            in-process: GoldLexer::lex + DocumentService::parse_content + DocumentSymbolGeneratorFromAst
//!         "P<code points>"           through a ProjectManager on a temporary workspace (implementation only, JSON wire format)
//! result (first form):  T<tok>;<tok>...|E<err>;...|<tree dump>|D<diag>;...|O<outline>
//!   tok     = typeidx:raw:sl:sc:el:ec                    (GoldLexer::lex)
//!   err     = sl:sc:el:ec                                (lexer errors)
//!   diag    = sl:sc:el:ec                                (Document.parser_diagnostics as parse_content assembles them:
//!                                                         parser diagnostics in the order added, then the lexer errors)
//!   outline = as eng_outline (generate_symbols on the document's ast = what generate_document_symbols answers)
//! result (second form): PM|<json of Vec<DocumentSymbol>>|<json of the diagnostic report's items>
use std::path::PathBuf;
use std::sync::atomic::{AtomicUsize, Ordering};

use crate::analyzers_v2::doc_symbol_generator::DocumentSymbolGeneratorFromAst;
use crate::common::cps_to_string;
use crate::lexer::GoldLexer;
use crate::manager::document_service::DocumentService;
use crate::manager::ProjectManager;
use crate::treedump::dump_tree;
use crate::utils::{ILoggerV2, IRange, LogLevel, LogType};

#[derive(Debug, Clone)]
struct SilentLogger;
impl ILoggerV2 for SilentLogger {
    fn log_error(&self, _msg: &str) {}
    fn log_warning(&self, _msg: &str) {}
    fn log_info(&self, _msg: &str) {}
    fn log(&self, _log_type: LogType, _level: LogLevel, _msg: &str) {}
    fn clone_box(&self) -> Box<dyn ILoggerV2> { Box::new(SilentLogger) }
    fn clone_box_with_appended_prefix(&self, _prefix: &str) -> Box<dyn ILoggerV2> { Box::new(SilentLogger) }
    fn append_prefix(&mut self, _prefix: &str) {}
}

fn rng(r: &crate::utils::Range) -> String {
    format!("{}:{}:{}:{}", r.start.line, r.start.character, r.end.line, r.end.character)
}

fn in_process(text: &String) -> String {
    let mut lexer = GoldLexer::new();
    let (toks, errs) = lexer.lex(text);
    let t: Vec<String> = toks.iter().map(|t| format!("{}:{}:{}", t.token_type as usize, t.raw_pos, rng(&t.range))).collect();
    let e: Vec<String> = errs.iter().map(|e| rng(&e.range)).collect();
    let ds = DocumentService::new(None, Box::new(SilentLogger)).expect("DocumentService::new");
    let doc = match ds.parse_content(text) {
        Ok(d) => d,
        Err(e) => return format!("ERR-PARSE-CONTENT {}", e.msg.replace('\n', " ")),
    };
    let d: Vec<String> = doc.get_parser_diagnostics().iter().map(|d| rng(&d.get_range())).collect();
    let ast = doc.get_ast();
    let symbols = DocumentSymbolGeneratorFromAst::new().generate_symbols(ast.as_ast_node());
    format!("T{}|E{}|{}|D{}|O{}", t.join(";"), e.join(";"), dump_tree(ast.as_ref()), d.join(";"),
            crate::eng_outline::show_list(&symbols))
}

static COUNTER: AtomicUsize = AtomicUsize::new(0);
struct TmpDir(PathBuf);
impl TmpDir {
    fn new() -> TmpDir {
        let n = COUNTER.fetch_add(1, Ordering::SeqCst);
        let p = std::env::temp_dir().join(format!("goldverif-ranges-{}-{}", std::process::id(), n));
        let _ = std::fs::remove_dir_all(&p);
        std::fs::create_dir_all(&p).unwrap();
        TmpDir(p)
    }
}
impl Drop for TmpDir {
    fn drop(&mut self) { let _ = std::fs::remove_dir_all(&self.0); }
}

fn through_manager(text: &String) -> String {
    let dir = TmpDir::new();
    let file = dir.0.join("aCase.god");
    std::fs::write(&file, text.as_bytes()).unwrap();
    let root_uri = lsp_types::Url::from_file_path(&dir.0).unwrap();
    let uri = lsp_types::Url::from_file_path(&file).unwrap();
    let mut pm = match ProjectManager::new(Some(root_uri), Box::new(SilentLogger)) {
        Ok(pm) => pm,
        Err(e) => return format!("ERR-NEW {}", e.msg.replace('\n', " ")),
    };
    pm.index_files();
    let syms = match pm.generate_document_symbols(&uri) {
        Ok(s) => serde_json::to_string(&s).unwrap_or_else(|_| "null".to_string()),
        Err(e) => return format!("ERR-SYMBOLS {}", e.msg.replace('\n', " ")),
    };
    let diags = match pm.generate_document_diagnostic_report(&uri) {
        Ok(r) => serde_json::to_string(&r.full_document_diagnostic_report.items).unwrap_or_else(|_| "null".to_string()),
        Err(e) => return format!("ERR-REPORT {}", e.msg.replace('\n', " ")),
    };
    format!("PM|{}|{}", syms.replace('\n', " "), diags.replace('\n', " "))
}

pub fn run_case(line: &str) -> String {
    let line = line.trim();
    if let Some(rest) = line.strip_prefix('P') {
        let text = cps_to_string(rest);
        // the semantic analysers recurse on the tree: give them room, as the server's worker threads have
        let h = std::thread::Builder::new().stack_size(64 << 20).spawn(move || crate::common::guarded(|| through_manager(&text))).unwrap();
        return h.join().unwrap_or_else(|_| "PANIC thread".to_string());
    }
    in_process(&cps_to_string(line))
}
