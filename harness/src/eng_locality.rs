//! E-parse / locality (C09): two texts -> for each: lex -> parse_gold -> tree dump, diagnostics, outline
//! case  : "<text1 as code points>#<text2 as code points>[@<annotation of the check, ignored here>]"
//! result: "<obs1>#<obs2>",  obs = <rest length>|<tree dump>|<diagnostics>|<outline>
//!   the first three fields are exactly what eng_parse::parse_obs prints (none of them contains '|' or '#'),
//!   the outline is DocumentSymbolGeneratorFromAst::generate_symbols(root) printed by eng_outline::show_list
//!   (it contains '|': split an observation with splitn(4, '|')).
//! A panic propagates to main and is printed as "PANIC ...".
use crate::analyzers_v2::doc_symbol_generator::DocumentSymbolGeneratorFromAst;
use crate::common::cps_to_string;
use crate::lexer::GoldLexer;
use crate::parser::parse_gold;

fn obs(text: &String) -> String {
    let head = crate::eng_parse::parse_obs(text);
    let mut lexer = GoldLexer::new();
    let (toks, _errs) = lexer.lex(text);
    let ((_rest, root), _diags) = parse_gold(&toks);
    let syms = DocumentSymbolGeneratorFromAst::new().generate_symbols(root.as_ast_node());
    format!("{}|{}", head, crate::eng_outline::show_list(&syms))
}

pub fn run_case(line: &str) -> String {
    let body = line.split('@').next().unwrap_or("").trim();
    let mut it = body.splitn(2, '#');
    let t1 = cps_to_string(it.next().unwrap_or("").trim());
    let t2 = cps_to_string(it.next().unwrap_or("").trim());
    format!("{}#{}", obs(&t1), obs(&t2))
}
