//! Dumps a real syntax tree through the public IAstNode trait (+ downcasts for token fields)
//! in the interchange format of coq/theories/Model/Tree.v:
//!   node  = (kindidx identcps raw sl sc el ec {key=val;...} child child ...)
//!   val   = n<int> | s<cps> | t<tok> | l<tok>,<tok>,...        tok = tt:raw:sl:sc:el:ec:valcps
//! identcps / valcps: code points joined by '.', "-" when empty.
use std::sync::Arc;
use crate::common::string_to_cps;
use crate::lexer::tokens::Token;
use crate::parser::ast::*;
use crate::utils::{IRange, Range};

pub const KINDS: &[&str] = &include!(concat!(env!("OUT_DIR"), "/ast_kinds.rs"));

fn cps(s: &str) -> String { if s.is_empty() { "-".to_string() } else { string_to_cps(s) } }
pub fn rng(r: &Range) -> String { format!("{} {} {} {}", r.start.line, r.start.character, r.end.line, r.end.character) }
pub fn tok(t: &Token) -> String {
    format!("{}:{}:{}:{}:{}:{}:{}", t.token_type as usize, t.raw_pos, t.range.start.line, t.range.start.character,
            t.range.end.line, t.range.end.character, cps(&t.value))
}
fn toks<'a>(ts: impl Iterator<Item = &'a Token>) -> String { format!("l{}", ts.map(tok).collect::<Vec<_>>().join(",")) }
fn opt(t: &Option<Token>) -> String { toks(t.iter()) }

fn flags_of(n: &dyn IAstNode) -> usize {
    match n.get_member_modifiers() {
        Some(m) => (m.is_private as usize) | (m.is_protected as usize) << 1 | (m.is_final as usize) << 2 | (m.is_override as usize) << 3,
        None => 0,
    }
}
fn method_flags(mods: &Option<Arc<dyn IAstNode>>) -> usize {
    match mods.as_ref().and_then(|m| m.as_any().downcast_ref::<AstMethodModifiers>()) {
        Some(m) => (m.is_forward as usize) << 4 | (m.external_dll_name.is_some() as usize) << 5,
        None => 0,
    }
}

fn attrs(n: &dyn IAstNode) -> Vec<(u32, String)> {
    let a = n.as_any();
    let mut v: Vec<(u32, String)> = Vec::new();
    macro_rules! on { ($t:ty, $x:ident, $body:block) => { if let Some($x) = a.downcast_ref::<$t>() { $body } } }
    on!(AstTerminal, x, { v.push((0, format!("t{}", tok(&x.token)))); });
    on!(AstClass, x, { v.push((1, format!("t{}", tok(&x.identifier)))); v.push((2, opt(&x.parent_class))); });
    on!(AstModule, x, { v.push((1, format!("t{}", tok(&x.id)))); });
    on!(AstUses, x, { v.push((3, toks(x.list_of_uses.iter()))); });
    on!(AstTypeBasic, x, { v.push((0, format!("t{}", tok(&x.id_token)))); });
    on!(AstTypeSized, x, { v.push((0, format!("t{}", tok(&x.type_token)))); v.push((7, toks(std::iter::once(&x.size_token)))); });
    on!(AstEnumVariant, x, { v.push((1, format!("t{}", tok(&x.identifier)))); v.push((7, opt(&x.value_token))); });
    on!(AstTypeReference, x, { v.push((1, format!("t{}", tok(&x.ident_token)))); v.push((4, format!("t{}", tok(&x.ref_type))));
        v.push((7, opt(&x.inverse_var_token))); v.push((8, toks(x.options.iter()))); });
    on!(AstTypeDeclaration, x, { v.push((1, format!("t{}", tok(&x.identifier)))); });
    on!(AstConstantDeclaration, x, { v.push((1, format!("t{}", tok(&x.identifier)))); v.push((6, format!("n{}", x.is_multi_lang as usize)));
        v.push((7, toks(std::iter::once(&x.value_token)))); });
    on!(AstGlobalVariableDeclaration, x, { v.push((1, format!("t{}", tok(&x.identifier))));
        v.push((6, format!("n{}", flags_of(n) | (x.is_memory as usize) << 6))); });
    on!(AstProcedure, x, { v.push((5, opt(&x.end_token))); v.push((6, format!("n{}", flags_of(n) | method_flags(&x.modifiers)))); });
    on!(AstFunction, x, { v.push((5, opt(&x.end_token))); v.push((6, format!("n{}", flags_of(n) | method_flags(&x.modifiers)))); });
    on!(AstParameterDeclaration, x, { v.push((1, format!("t{}", tok(&x.identifier)))); v.push((7, opt(&x.modifier))); });
    on!(AstMemberModifiers, x, { v.push((6, format!("n{}", flags_of(n)))); v.push((8, toks(x.modifier_tokens.iter()))); });
    on!(AstMethodModifiers, x, { v.push((6, format!("n{}", flags_of(n) | (x.is_forward as usize) << 4 | (x.external_dll_name.is_some() as usize) << 5)));
        v.push((8, toks(x.modifier_tokens.iter()))); v.push((9, format!("s{}", cps(x.external_dll_name.as_deref().unwrap_or(""))))); });
    on!(AstComment, x, { v.push((9, format!("s{}", cps(&x.comment)))); });
    on!(AstBinaryOp, x, { v.push((4, format!("t{}", tok(&x.op_token)))); });
    on!(AstUnaryOp, x, { v.push((4, format!("t{}", tok(&x.op_token)))); });
    on!(AstIfBlock, x, { v.push((5, opt(&x.end_token))); });
    on!(AstForBlock, x, { v.push((1, format!("t{}", tok(&x.counter_token)))); v.push((5, opt(&x.end_token))); });
    on!(AstForEachBlock, x, { v.push((5, opt(&x.end_token))); v.push((6, format!("n{}", x.is_downto as usize))); });
    on!(AstWhileBlock, x, { v.push((5, opt(&x.end_token))); });
    on!(AstLoopBlock, x, { v.push((5, opt(&x.end_token))); });
    on!(AstSwitchBlock, x, { v.push((5, opt(&x.end_token))); });
    on!(AstRepeatBlock, x, { v.push((5, opt(&x.end_token))); });
    on!(AstLocalVariableDeclaration, x, { v.push((1, format!("t{}", tok(&x.identifier)))); });
    on!(AstTypeRecordField, x, { v.push((1, format!("t{}", tok(&x.identifier)))); });
    on!(AstTypeArray, x, { v.push((4, format!("t{}", tok(&x.array_seq_token)))); });
    on!(AstMethodNameWithEvent, x, { v.push((9, format!("s{}", cps(&x.id)))); });
    on!(AstOQLSelect, x, { v.push((6, format!("n{}", x.is_distinct as usize))); });
    on!(AstOQLFromNode, x, { v.push((1, format!("t{}", tok(&x.alias_token))));
        v.push((6, format!("n{}", (x.is_conditional as usize) | (x.is_all_versions as usize) << 1 | (x.is_phantoms_too as usize) << 2 | (x.includes_subclasses as usize) << 3))); });
    on!(AstOQLJoin, x, { v.push((4, format!("t{}", tok(&x.join_token)))); });
    on!(AstOQLOrderBy, x, { v.push((6, format!("n{}", x.is_descending as usize))); });
    v
}

/// Every trait method the property names is called here: kind (get_type), name (get_identifier),
/// range, raw pos, both child views, to_string_type, the brief formats.
pub fn dump(n: &dyn IAstNode, out: &mut String) {
    let kind = n.get_type();
    let kidx = KINDS.iter().position(|k| *k == kind).map(|i| i as i64).unwrap_or(-1);
    let _ = n.to_string_type();
    let _ = n.to_string_type_pos();
    let _ = n.to_string_ident_pos();
    let _ = n.to_string_type_range();
    let _ = n.get_pos();
    let mut at = attrs(n);
    let cref = n.get_children_ref();
    let carc = n.get_children_arc();
    let _ = n.get_children_ref_dynamic();
    let agree = match (&cref, &carc) {
        (None, None) => true,
        (Some(a), Some(b)) => a.len() == b.len() && a.iter().zip(b.iter()).all(|(x, y)| {
            std::ptr::eq(*x as *const dyn IAstNode as *const u8, y.as_ref() as *const dyn IAstNode as *const u8) }),
        _ => false,
    };
    if !agree { at.push((99, "n1".to_string())); }
    out.push('(');
    out.push_str(&format!("{} {} {} {} {{{}}}", kidx, cps(n.get_identifier()), n.get_raw_pos(), rng(&n.get_range()),
        at.iter().map(|(k, v)| format!("{}={}", k, v)).collect::<Vec<_>>().join(";")));
    if let Some(ch) = cref {
        for c in ch { out.push(' '); dump(c, out); }
    }
    out.push(')');
}

pub fn dump_tree(n: &dyn IAstNode) -> String { let mut s = String::new(); dump(n, &mut s); s }
