//! E-wstree (C10/C11 at tree level, a WORKSPACE of documents):
//! case:   `<Stem>=<text as code points>` joined by `;`   (anything after '@' is ignored)
//!   -> every text written to <tmp>/<Stem>.god; every file lexed (positions = start / middle / end of EVERY
//!      identifier token) and parsed with the real parser, every tree dumped
//!   -> for EVERY file: a fresh ProjectManager::new + index_files on the temp workspace, then
//!      generate_goto_definitions and generate_completion_proposals at every position of that file
//!      (a fresh manager per file: which documents are annotated in the full mode, and in which order the
//!       tables are linked, is then a function of the requested file alone)
//! result: "<dump>|<dump>|...@<stem cps>|<stem cps>|...@<l:c,l:c,...>|<l:c,...>|...#<answers of file 1>|<answers of file 2>|..."
//!   answers of a file = answer;answer;...     answer = D<links>C<labels>
//!   links  = `<target stem cps>/sl:sc:el:ec/sl:sc:el:ec` (target file, target_selection_range, target_range)
//!            joined by ',' in the order returned, `-` when empty; `ERR` / `PANIC`
//!   labels = code points of each label joined by ',' in the order returned, `-` when empty; `ERR` / `PANIC`
use std::path::PathBuf;
use std::sync::atomic::{AtomicUsize, Ordering};
use std::sync::mpsc;
use std::time::Duration;

use crate::common::{cps_to_string, string_to_cps};
use crate::lexer::tokens::TokenType;
use crate::lexer::GoldLexer;
use crate::manager::ProjectManager;
use crate::parser::parse_gold;
use crate::treedump::dump_tree;
use crate::utils::{ILoggerV2, LogLevel, LogType, Position};

#[derive(Debug, Clone)]
struct SilentLogger;
impl ILoggerV2 for SilentLogger {
    fn log_error(&self, _msg: &str) {}
    fn log_warning(&self, _msg: &str) {}
    fn log_info(&self, _msg: &str) {}
    fn log(&self, _log_type: LogType, _level: LogLevel, _msg: &str) {}
    fn clone_box(&self) -> Box<dyn ILoggerV2> { Box::new(SilentLogger) }
    fn clone_box_with_appended_prefix(&self, _prefix: &str) -> Box<dyn ILoggerV2> { Box::new(SilentLogger) }
    fn append_prefix(&mut self, _prefix: &str) {}
}

static COUNTER: AtomicUsize = AtomicUsize::new(0);
struct TmpDir(PathBuf);
impl TmpDir {
    fn new() -> TmpDir {
        let n = COUNTER.fetch_add(1, Ordering::SeqCst);
        let p = std::env::temp_dir().join(format!("goldverif-wstree-{}-{}", std::process::id(), n));
        let _ = std::fs::remove_dir_all(&p);
        std::fs::create_dir_all(&p).unwrap();
        TmpDir(p)
    }
}
impl Drop for TmpDir { fn drop(&mut self) { let _ = std::fs::remove_dir_all(&self.0); } }

fn rng(r: &lsp_types::Range) -> String { format!("{}:{}:{}:{}", r.start.line, r.start.character, r.end.line, r.end.character) }

fn stem_of(u: &lsp_types::Url) -> String {
    match u.to_file_path() {
        Ok(p) => p.file_stem().and_then(|s| s.to_str()).unwrap_or("?").to_string(),
        Err(_) => "?".to_string(),
    }
}

fn run(files: Vec<(String, String)>, root: PathBuf) -> String {
    let mut dumps: Vec<String> = Vec::new();
    let mut poss: Vec<Vec<(usize, usize)>> = Vec::new();
    for (_stem, text) in files.iter() {
        let mut lexer = GoldLexer::new();
        let (toks, _errs) = lexer.lex(text);
        let mut positions: Vec<(usize, usize)> = Vec::new();
        for t in toks.iter() {
            if t.token_type == TokenType::Identifier {
                let (l, a, b) = (t.range.start.line, t.range.start.character, t.range.end.character);
                for c in [a, (a + b) / 2, b] { if !positions.contains(&(l, c)) { positions.push((l, c)); } }
            }
        }
        let ((_rest, tree), _diags) = parse_gold(&toks);
        dumps.push(dump_tree(tree.as_ref()));
        poss.push(positions);
    }
    let root_uri = lsp_types::Url::from_file_path(&root).unwrap();
    let mut all: Vec<String> = Vec::new();
    for (k, (stem, _text)) in files.iter().enumerate() {
        let mut pm = match ProjectManager::new(Some(root_uri.clone()), Box::new(SilentLogger)) {
            Ok(pm) => pm,
            Err(e) => return format!("X cannot create the project manager {}#", e.msg.replace('#', " ")),
        };
        pm.index_files();
        let uri = lsp_types::Url::from_file_path(root.join(format!("{}.god", stem))).unwrap();
        let mut answers: Vec<String> = Vec::with_capacity(poss[k].len());
        for (l, c) in poss[k].iter() {
            let pos = Position::new(*l, *c);
            let d = crate::common::guarded(|| match pm.generate_goto_definitions(&uri, &pos) {
                Ok(links) => {
                    if links.is_empty() { return "-".to_string(); }
                    links.iter().map(|k| format!("{}/{}/{}", string_to_cps(&stem_of(&k.target_uri)),
                        rng(&k.target_selection_range), rng(&k.target_range))).collect::<Vec<_>>().join(",")
                }
                Err(_) => "ERR".to_string(),
            });
            let c = crate::common::guarded(|| match pm.generate_completion_proposals(&uri, &pos) {
                Ok(items) => {
                    if items.is_empty() { return "-".to_string(); }
                    items.iter().map(|i| if i.label.is_empty() { "~".to_string() } else { string_to_cps(&i.label) }).collect::<Vec<_>>().join(",")
                }
                Err(_) => "ERR".to_string(),
            });
            let clean = |s: String| if s.starts_with("PANIC") { "PANIC".to_string() } else { s };
            answers.push(format!("D{}C{}", clean(d), clean(c)));
        }
        all.push(answers.join(";"));
    }
    format!("{}@{}@{}#{}", dumps.join("|"),
            files.iter().map(|(s, _)| string_to_cps(s)).collect::<Vec<_>>().join("|"),
            poss.iter().map(|p| p.iter().map(|(l, c)| format!("{}:{}", l, c)).collect::<Vec<_>>().join(",")).collect::<Vec<_>>().join("|"),
            all.join("|"))
}

pub fn run_case(line: &str) -> String {
    let body = line.split('@').next().unwrap_or("").trim();
    let mut files: Vec<(String, String)> = Vec::new();
    for f in body.split(';').filter(|s| !s.is_empty()) {
        let (stem, cps) = match f.split_once('=') { Some(x) => x, None => return "X bad case#".to_string() };
        if stem.is_empty() || !stem.chars().all(|c| c.is_ascii_alphanumeric() || c == '_') { return "X bad stem#".to_string(); }
        if files.iter().any(|(s, _)| s.to_uppercase() == stem.to_uppercase()) { return "X colliding stems#".to_string(); }
        files.push((stem.to_string(), cps_to_string(cps)));
    }
    if files.is_empty() { return "X no files#".to_string(); }
    let dir = TmpDir::new();
    for (stem, text) in files.iter() {
        std::fs::write(dir.0.join(format!("{}.god", stem)), text.as_bytes()).unwrap();
    }
    let root = dir.0.clone();
    let (tx, rx) = mpsc::channel::<String>();
    let h = std::thread::Builder::new().stack_size(256 << 20).spawn(move || {
        let r = crate::common::guarded(|| run(files, root));
        let _ = tx.send(if r.starts_with("PANIC") { "X parse-or-setup-panic#".to_string() } else { r });
    }).unwrap();
    let out = match rx.recv_timeout(Duration::from_secs(120)) {
        Ok(s) => { let _ = h.join(); s }
        Err(_) => "HANG#HANG".to_string(),
    };
    drop(dir);
    out
}
