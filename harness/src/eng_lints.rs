//! E-lints (C16): the rule-based warnings through the PUBLIC path of the server.
//! case:   a Gold source text as code points "99.108.97..."
//! The text is written to <tmp>/goldverif-lints-<pid>-<n>/aCase.god, a ProjectManager is created
//! on that workspace, index_files(), then generate_document_diagnostic_report(uri) TWICE.
//! result: <tree dump of the document's AST>#<d>;<d>;...|IDEM-OK
//!         (or ...|IDEM-BAD|<second list> when the second request answers differently)
//!   d = class:sev:sl:sc:el:ec:keycps   sorted; class from the message text:
//!   RET INH PURGE NPROC NFUNC NFIELD NPARAM NLOCAL NTYPE NCONST, anything else OTHER
//!   (parser errors, unused variables, ... : other properties; dropped by the check's canonicaliser).
//!   key: RET -> the type word of the message, INH / PURGE -> the quoted name, others "-".
//! A case that does not answer within 10 s prints HANG; a panic prints PANIC <msg>.
use std::path::PathBuf;
use std::sync::atomic::{AtomicUsize, Ordering};
use std::sync::mpsc;
use std::time::Duration;

use crate::common::{cps_to_string, string_to_cps};
use crate::manager::ProjectManager;
use crate::treedump::dump_tree;
use crate::utils::{ILoggerV2, LogLevel, LogType};

#[derive(Debug, Clone)]
struct SilentLogger;
impl ILoggerV2 for SilentLogger {
    fn log_error(&self, _msg: &str) {}
    fn log_warning(&self, _msg: &str) {}
    fn log_info(&self, _msg: &str) {}
    fn log(&self, _log_type: LogType, _level: LogLevel, _msg: &str) {}
    fn clone_box(&self) -> Box<dyn ILoggerV2> { Box::new(SilentLogger) }
    fn clone_box_with_appended_prefix(&self, _prefix: &str) -> Box<dyn ILoggerV2> { Box::new(SilentLogger) }
    fn append_prefix(&mut self, _prefix: &str) {}
}

static COUNTER: AtomicUsize = AtomicUsize::new(0);

struct TmpDir(PathBuf);
impl TmpDir {
    fn new() -> TmpDir {
        let n = COUNTER.fetch_add(1, Ordering::SeqCst);
        let p = std::env::temp_dir().join(format!("goldverif-lints-{}-{}", std::process::id(), n));
        let _ = std::fs::remove_dir_all(&p);
        std::fs::create_dir_all(&p).unwrap();
        TmpDir(p)
    }
}
impl Drop for TmpDir {
    fn drop(&mut self) { let _ = std::fs::remove_dir_all(&self.0); }
}

fn quoted(msg: &str) -> String {
    match (msg.find('\''), msg.rfind('\'')) {
        (Some(a), Some(b)) if b > a => msg[a + 1..b].to_string(),
        _ => String::new(),
    }
}

fn classify(msg: &str) -> (&'static str, String) {
    const RET_TAIL: &str = " type should not be returned by functions, pass it as inout/var param instead";
    if let Some(t) = msg.strip_suffix(RET_TAIL) { return ("RET", t.to_string()); }
    if msg.starts_with("Method '") && msg.ends_with("' should call its inherited implem.") { return ("INH", quoted(msg)); }
    if msg.starts_with("Local tVarByteArray '") && msg.ends_with("' is not purged") { return ("PURGE", quoted(msg)); }
    let c = match msg {
        "Procedure names should have capital first letter" => "NPROC",
        "Function names should have capital first letter" => "NFUNC",
        "Field names should have capital first letter" => "NFIELD",
        "Parameter names should have capital first letter" => "NPARAM",
        "Local variable names should have lowercase first letter" => "NLOCAL",
        "Type names should start with t, e.g. tSomeType" => "NTYPE",
        "Constant names should start with c, e.g. cSomeConstant" => "NCONST",
        _ => "OTHER",
    };
    (c, String::new())
}

fn canon(items: &Vec<lsp_types::Diagnostic>) -> Vec<String> {
    let mut v: Vec<String> = items.iter().map(|d| {
        let (c, key) = classify(&d.message);
        let sev = match d.severity {
            Some(lsp_types::DiagnosticSeverity::ERROR) => 1,
            Some(lsp_types::DiagnosticSeverity::WARNING) => 2,
            Some(lsp_types::DiagnosticSeverity::INFORMATION) => 3,
            Some(lsp_types::DiagnosticSeverity::HINT) => 4,
            _ => 0,
        };
        format!("{}:{}:{}:{}:{}:{}:{}", c, sev, d.range.start.line, d.range.start.character,
                d.range.end.line, d.range.end.character, if key.is_empty() { "-".to_string() } else { string_to_cps(&key) })
    }).collect();
    v.sort();
    v
}

fn one_case(text: String) -> String {
    let dir = TmpDir::new();
    let file = dir.0.join("aCase.god");
    std::fs::write(&file, text.as_bytes()).unwrap();
    let root_uri = lsp_types::Url::from_file_path(&dir.0).unwrap();
    let uri = lsp_types::Url::from_file_path(&file).unwrap();
    let mut pm = match ProjectManager::new(Some(root_uri), Box::new(SilentLogger)) {
        Ok(pm) => pm,
        Err(e) => return format!("#ERR-NEW {}", e.msg.replace('\n', " ")),
    };
    pm.index_files();
    let first = match pm.generate_document_diagnostic_report(&uri) {
        Ok(r) => canon(&r.full_document_diagnostic_report.items),
        Err(e) => return format!("#ERR-REPORT {}", e.msg.replace('\n', " ")),
    };
    let second = match pm.generate_document_diagnostic_report(&uri) {
        Ok(r) => canon(&r.full_document_diagnostic_report.items),
        Err(e) => vec![format!("ERR-REPORT2 {}", e.msg.replace('\n', " "))],
    };
    let tree = match pm.doc_service.get_parsed_document(&uri, true) {
        Ok(doc) => { let d = doc.lock().unwrap(); dump_tree(d.get_ast().as_ref()) }
        Err(e) => return format!("#ERR-DOC {}", e.msg.replace('\n', " ")),
    };
    if first == second {
        format!("{}#{}|IDEM-OK", tree, first.join(";"))
    } else {
        format!("{}#{}|IDEM-BAD|{}", tree, first.join(";"), second.join(";"))
    }
}

pub fn run_case(line: &str) -> String {
    let text = cps_to_string(line.trim());
    let (tx, rx) = mpsc::channel::<String>();
    let h = std::thread::Builder::new().stack_size(64 << 20).spawn(move || {
        let r = crate::common::guarded(|| one_case(text));
        let _ = tx.send(r);
    }).unwrap();
    match rx.recv_timeout(Duration::from_secs(10)) {
        Ok(s) => { let _ = h.join(); if s.starts_with("PANIC") { s } else { s } }
        Err(_) => "HANG".to_string(),
    }
}
