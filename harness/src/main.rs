#![allow(warnings)]
// The implementation under test: the modules of /repo/src compiled into this crate,
// so that pub(crate) items are reachable and the current working tree is what runs.
#[path = "/repo/src/lexer/mod.rs"] pub mod lexer;
#[path = "/repo/src/parser/mod.rs"] pub mod parser;
#[path = "/repo/src/utils.rs"] pub mod utils;
#[path = "/repo/src/manager/mod.rs"] pub mod manager;
#[path = "/repo/src/analyzers/mod.rs"] pub mod analyzers;
#[path = "/repo/src/threadpool.rs"] pub mod threadpool;
#[path = "/repo/src/analyzers_v2/mod.rs"] pub mod analyzers_v2;
#[cfg(gold_lsp_verif)]
#[path = "/repo/src/verif_hooks.rs"] pub mod verif_hooks;

mod common;
mod treedump;
include!(concat!(env!("OUT_DIR"), "/engines.rs"));

use std::io::{BufRead, Write};

/// vharness <engine> : one case per stdin line, one result per stdout line.
fn main() {
    let args: Vec<String> = std::env::args().collect();
    let engine = args.get(1).map(|s| s.as_str()).unwrap_or("");
    // silence panic messages: a panic is an observation ("PANIC"), reported per case
    std::panic::set_hook(Box::new(|_| {}));
    let f: fn(&str) -> String = match dispatch(engine) {
        Some(f) => f,
        None => { eprintln!("unknown engine {engine}"); std::process::exit(2); }
    };
    let stdin = std::io::stdin();
    let stdout = std::io::stdout();
    let mut out = std::io::BufWriter::new(stdout.lock());
    for line in stdin.lock().lines() {
        let line = line.unwrap();
        let r = common::guarded(|| f(&line));
        writeln!(out, "{}", r).unwrap();
    }
}
