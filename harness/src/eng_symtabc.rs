//! E-symtabc: E-symtab under lock contention.  Same case format and same observations as eng_symtab.rs, but every
//! query runs while, for each enclosing scope of the queried one, another thread HOLDS that scope's mutex for a few
//! milliseconds (the holder signals once it has the lock; the query starts only after all holders hold).  A look-up
//! has to WAIT for a busy enclosing scope: its answer must not depend on whether somebody else happens to be reading
//! that scope at the same time.
use std::sync::{mpsc, Arc, Mutex};
use std::thread;
use std::time::Duration;
use crate::analyzers_v2::symbol_table::{ISymbolTable, SymbolInfo, SymbolTable, SymbolType};

fn o_sym(cls: &str, s: &SymbolInfo) -> String {
    format!("{}|{}|{}", cls, s.id, s.type_str.clone().unwrap_or_default())
}

fn hold_ancestors(tabs: &Vec<Arc<Mutex<dyn ISymbolTable>>>, j: usize) -> Vec<thread::JoinHandle<()>> {
    let mut hs = Vec::new();
    let (tx, rx) = mpsc::channel::<()>();
    let mut n = 0;
    for k in (j + 1)..tabs.len() {
        let t = tabs[k].clone();
        let tx = tx.clone();
        n += 1;
        hs.push(thread::spawn(move || {
            let g = t.lock().unwrap();
            let _ = tx.send(());
            thread::sleep(Duration::from_millis(4));
            drop(g);
        }));
    }
    for _ in 0..n { let _ = rx.recv_timeout(Duration::from_secs(10)); }
    hs
}

pub fn run_case(line: &str) -> String {
    let (n, ops) = line.split_once(';').unwrap();
    let n: usize = n.parse().unwrap();
    let mut tabs: Vec<Arc<Mutex<dyn ISymbolTable>>> = Vec::new();
    let mut prev: Option<Arc<Mutex<dyn ISymbolTable>>> = None;
    for j in (0..n).rev() {
        let mut t = SymbolTable::new();
        t.for_class_or_module = Some(format!("C{}", j));
        if let Some(p) = prev.take() { t.set_parent_symbol_table(p); }
        let a: Arc<Mutex<dyn ISymbolTable>> = Arc::new(Mutex::new(t));
        prev = Some(a.clone());
        tabs.push(a);
    }
    tabs.reverse();
    let mut outs: Vec<String> = Vec::new();
    let mut tag: usize = 0;
    for op in ops.split(',').filter(|s| !s.is_empty()) {
        let kind = op.as_bytes()[0] as char;
        let rest = &op[1..];
        let (j, id) = match rest.split_once(':') { Some((j, id)) => (j, id), None => (rest, "") };
        let j: usize = j.parse().unwrap();
        let t = &tabs[j];
        let holders = if kind != 'I' && kind != 'T' && kind != 'S' { hold_ancestors(&tabs, j) } else { Vec::new() };
        let o: Vec<String> = match kind {
            'I' => {
                let mut info = SymbolInfo::new(id.to_string(), SymbolType::Field);
                info.type_str = Some(tag.to_string());
                t.lock().unwrap().insert_symbol_info(id, info);
                vec![]
            }
            'G' => t.lock().unwrap().get_symbol_info(id).iter().map(|s| o_sym("", s)).collect(),
            'W' => t.lock().unwrap().search_symbol_info_wparent(id).iter().map(|(c, s)| o_sym(c, s)).collect(),
            'S' => t.lock().unwrap().search_symbol_info(id).iter().map(|(c, s)| o_sym(c, s)).collect(),
            'A' => t.lock().unwrap().search_all_symbol_info(id).iter().map(|(c, s)| o_sym(c, s)).collect(),
            'T' => t.lock().unwrap().iter_symbols().map(|s| o_sym("", s)).collect(),
            'C' => t.lock().unwrap().collect_unique_symbols_w_parents().iter().map(|s| o_sym("", s)).collect(),
            'E' => if t.lock().unwrap().identifier_exists(id) { vec!["||1".to_string()] } else { vec![] },
            _ => panic!("bad op"),
        };
        for h in holders { let _ = h.join(); }
        tag += 1;
        outs.push(format!("[{}]", o.join(",")));
    }
    outs.join(";")
}
