"""Differential correspondence: implementation (vharness) vs extracted model (vmodel)."""
import os, time
from . import core


class Engines:
    """Builds both sides once per run."""
    _harness = {}
    _model_ok = None

    @classmethod
    def harness(cls, release=False, hooks=False):
        k = (release, hooks)
        if k not in cls._harness:
            b, log = core.build_harness(release=release, hooks=hooks)
            if b is None:
                raise RuntimeError("harness does not build against /repo's current tree:\n" + log[-3000:])
            cls._harness[k] = b
        return cls._harness[k]

    @classmethod
    def model(cls):
        if cls._model_ok is None:
            ok, log = core.build_model()
            if not ok:
                raise RuntimeError("model runner does not build:\n" + log[-3000:])
            cls._model_ok = True
        return core.VMODEL


def shrink_case(case, still_fails, shrinker, budget=200):
    """Greedy delta debugging: shrinker(case) yields smaller candidates."""
    cur = case
    improved = True
    while improved and budget > 0:
        improved = False
        for cand in shrinker(cur):
            budget -= 1
            if budget <= 0:
                break
            if still_fails(cand):
                cur = cand
                improved = True
                break
    return cur


def differential(ctx, engine, cases, *, oracle=None, known=None, shrinker=None, nontrivial=None,
                 release=False, hooks=False, describe=None, impl_args=(), model_engine=None, canon=None,
                 split=None):
    """Runs all cases on both sides.  Returns a coverage dict; raises core.Violation.
       oracle(case, impl_out) -> None when the implementation's own output satisfies the property
       on that case, else a description of the clause that fails.
       known(case, impl_out, model_out) -> description when the disagreement / failure belongs to a
       listed known finding, else None.
       split(impl_raw_out) -> (model_case, impl_observation): two-phase engines whose model consumes
       something the implementation produced (e.g. the dumped syntax tree): the harness prints
       "<model input><sep><observation>", the model is run on <model input> and must print <observation>.
       The oracle then receives (case, impl_observation)."""
    t0 = time.time()
    hb = Engines.harness(release=release, hooks=hooks)
    mb = Engines.model()
    impl = core.run_lines(hb, engine, cases, extra_args=impl_args)
    if split:
        pairs = [split(x) if not (x.startswith("PANIC") or x == "CRASH") else ("", x) for x in impl]
        impl = [p[1] for p in pairs]
        mod = core.run_lines(mb, model_engine or engine, [p[0] for p in pairs])
        mod = [i if (i.startswith("PANIC") or i == "CRASH") and False else m for i, m in zip(impl, mod)]
    else:
        mod = core.run_lines(mb, model_engine or engine, cases)
    if canon:
        impl = [canon(x) for x in impl]
        mod = [canon(x) for x in mod]
    disagreements = []
    oracle_fail = []
    for c, i, m in zip(cases, impl, mod):
        if i != m:
            disagreements.append((c, i, m))
        if oracle is not None:
            r = oracle(c, i)
            if r is not None:
                oracle_fail.append((c, i, m, r))
    n_nontrivial = len(set(c for c in cases if (nontrivial(c) if nontrivial else True)))
    cov = {
        "programs": len(cases), "evaluations": len(cases), "distinct_nontrivial": n_nontrivial,
        "disagreements_checked": len(disagreements), "oracle_failures": len(oracle_fail),
        "engine": engine, "diff_wall_s": round(time.time() - t0, 2),
    }
    # 1. failures of the property's own statement on the implementation's output
    new_fail = []
    for (c, i, m, r) in oracle_fail:
        k = known(c, i, m) if known else None
        if k:
            ctx.known(k)
        else:
            new_fail.append((c, i, m, r))
    if new_fail:
        c, i, m, r = min(new_fail, key=lambda t: len(t[0]))
        if shrinker and oracle:
            def still(cand):
                out = core.run_lines(hb, engine, [cand], shards=1, extra_args=impl_args)[0]
                if split and not (out.startswith("PANIC") or out == "CRASH"):
                    out = split(out)[1]
                if canon:
                    out = canon(out)
                return oracle(cand, out) is not None and not (known and known(cand, out, None))
            c2 = shrink_case(c, still, shrinker)
            if c2 != c:
                i = core.run_lines(hb, engine, [c2], shards=1, extra_args=impl_args)[0]
                if split and not (i.startswith("PANIC") or i == "CRASH"):
                    mc, i = split(i)
                else:
                    mc = c2
                m = core.run_lines(mb, model_engine or engine, [mc], shards=1)[0]
                if canon:
                    i, m = canon(i), canon(m)
                r = oracle(c2, i)
                c = c2
        path = core.write_replay(ctx.pid, ctx.seed, {
            "engine": engine, "case": c, "case_readable": describe(c) if describe else c,
            "observed": i, "model": m, "expected": r, "n_failing_cases": len(new_fail)})
        v = core.Violation(r, path, True)
        v.coverage = cov
        raise v
    # 2. model and implementation disagree but the oracle accepts the implementation's output
    unknown = []
    for (c, i, m) in disagreements:
        k = known(c, i, m) if known else None
        if k:
            ctx.known(k)
        else:
            unknown.append((c, i, m))
    if unknown:
        c, i, m = min(unknown, key=lambda t: len(t[0]))
        path = core.write_replay(ctx.pid, ctx.seed, {
            "engine": engine, "broken": "correspondence %s: model and implementation disagree" % engine,
            "case": c, "case_readable": describe(c) if describe else c,
            "observed": i, "model": m, "n_disagreeing_cases": len(unknown),
            "note": "the property's oracle accepts the implementation's output on every explored case"
                    if oracle else "no independent oracle for this engine"})
        v = core.Violation("model/implementation disagreement", path, False)
        v.coverage = cov
        raise v
    return cov
