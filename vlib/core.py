"""Shared machinery of the checks: Coq build + assumption audit, harness/model build,
running engines on both sides, diffing, evidence and violation reporting."""
import json, os, re, subprocess, sys, time, hashlib, random, shutil, tempfile

VERIF = os.path.dirname(os.path.dirname(os.path.abspath(__file__)))
REPO = "/repo"
COQ = os.path.join(VERIF, "coq")
HARNESS = os.path.join(VERIF, "harness")
EXTRACT = os.path.join(COQ, "extract")
VMODEL = os.path.join(EXTRACT, "vmodel")
EVIDENCE = os.path.join(VERIF, "evidence")
REPLAYS = os.path.join(VERIF, "replays")
NCPU = os.cpu_count() or 4

# axioms of Coq's standard library that may appear under Print Assumptions (DESIGN.md section 7)
ALLOWED_AXIOMS = {
    "functional_extensionality_dep", "FunctionalExtensionality.functional_extensionality_dep",
    "proof_irrelevance", "ProofIrrelevance.proof_irrelevance",
    "Eqdep.Eq_rect_eq.eq_rect_eq", "eq_rect_eq", "JMeq_eq", "JMeq.JMeq_eq",
    "classic", "Classical_Prop.classic",
}
FORBIDDEN = re.compile(
    r"\b(Admitted|admit|Axiom|Axioms|Parameter|Parameters|Conjecture|Conjectures|Hypothesis|Hypotheses|Variable|Variables|Context)\b|"
    r"Unset\s+Guard|bypass_check|type-in-type|impredicative-set|Admit\s+Obligations|"
    r"Unset\s+Universe\s+Checking|Unset\s+Positivity")


class Violation(Exception):
    def __init__(self, what, replay, found_input=True):
        super().__init__(what)
        self.what = what
        self.replay = replay
        self.found_input = found_input


def sh(cmd, cwd=None, timeout=None, env=None, inp=None):
    e = dict(os.environ)
    e.setdefault("CARGO_NET_OFFLINE", "true")
    if env:
        e.update(env)
    p = subprocess.run(cmd, cwd=cwd, timeout=timeout, env=e, input=inp, shell=isinstance(cmd, str),
                       stdout=subprocess.PIPE, stderr=subprocess.STDOUT, text=True)
    return p.returncode, p.stdout


# ---------------------------------------------------------------------------------------------
# Coq side
# ---------------------------------------------------------------------------------------------

def run_translators():
    """Regenerate coq/theories/Gen/*.v from /repo's current sources.  Returns list of
    (translator, ok, message)."""
    res = []
    tdir = os.path.join(VERIF, "translators")
    for t in sorted(os.listdir(tdir)):
        if not t.endswith(".py"):
            continue
        rc, out = sh([sys.executable, os.path.join(tdir, t)], timeout=60)
        res.append((t, rc == 0, out.strip()[-2000:]))
    return res


def coq_makefile():
    sh(["sh", os.path.join(VERIF, "tools", "mkcoqproject.sh")], timeout=60)
    mk = os.path.join(COQ, "Makefile")
    cp = os.path.join(COQ, "_CoqProject")
    if not os.path.exists(mk) or os.path.getmtime(mk) < os.path.getmtime(cp):
        rc, out = sh(["coq_makefile", "-f", "_CoqProject", "-o", "Makefile"], cwd=COQ, timeout=60)
        if rc != 0:
            raise RuntimeError("coq_makefile failed: " + out)


def coq_build(targets=None, timeout=1500):
    """Full .vo build (never -vos) of the given targets (default: everything)."""
    coq_makefile()
    cmd = ["make", "-j%d" % NCPU]
    if targets:
        cmd += targets
    rc, out = sh(cmd, cwd=COQ, timeout=timeout)
    return rc == 0, out


def audit_sources():
    """grep the whole development for declarations that would add to the trusted base.
    Variable / Hypothesis / Context are allowed inside a Section only (there they are discharged
    as ordinary lambda abstractions when the section closes)."""
    bad = []
    sec_open = re.compile(r"^\s*Section\s+(\w+)\s*\.")
    sec_close = re.compile(r"^\s*End\s+(\w+)\s*\.")
    in_section_only = re.compile(r"\b(Variable|Variables|Hypothesis|Hypotheses|Context)\b")
    for root, _, files in os.walk(os.path.join(COQ, "theories")):
        for f in files:
            if not f.endswith(".v"):
                continue
            p = os.path.join(root, f)
            txt = strip_coq_comments(open(p).read())
            sections = []
            for i, line in enumerate(txt.split("\n"), 1):
                mo = sec_open.match(line)
                if mo:
                    sections.append(mo.group(1))
                mc = sec_close.match(line)
                if mc and sections and sections[-1] == mc.group(1):
                    sections.pop()
                    continue
                m = FORBIDDEN.search(line)
                if m:
                    if in_section_only.search(m.group(0)) and sections:
                        continue
                    bad.append("%s:%d: %s" % (os.path.relpath(p, VERIF), i, line.strip()[:120]))
    return bad


def strip_coq_comments(txt):
    out = []
    depth = 0
    i = 0
    n = len(txt)
    while i < n:
        if txt.startswith("(*", i):
            depth += 1
            i += 2
        elif txt.startswith("*)", i) and depth > 0:
            depth -= 1
            i += 2
        else:
            if depth == 0:
                out.append(txt[i])
            elif txt[i] == "\n":
                out.append("\n")
            i += 1
    return "".join(out)


def property_obligations(pid, timeout=900):
    """Compile Properties/<pid>.v afresh (its dependencies through make) and return
    (ok, [ (theorem, [axioms]) ], log).  A theorem is discharged iff the file compiles and the
    theorem's Print Assumptions lists allow-listed axioms only."""
    vfile = "theories/Properties/%s.v" % pid
    path = os.path.join(COQ, vfile)
    src = strip_coq_comments(open(path).read())
    theorems = re.findall(r"^\s*(?:Theorem|Example)\s+(\w+)", src, re.M)
    printed = re.findall(r"Print Assumptions\s+(\w+)\s*\.", src)
    # force re-check of the property file itself
    vo = path[:-2] + ".vo"
    if os.path.exists(vo):
        os.remove(vo)
    ok, log = coq_build([vfile + "o"], timeout=timeout)
    if not ok:
        return False, [(t, None) for t in theorems], log
    # parse the Print Assumptions blocks in order
    blocks = []
    cur = None
    for line in log.split("\n"):
        if line.startswith("Closed under the global context"):
            blocks.append([])
            cur = None
        elif line.startswith("Axioms:"):
            cur = []
            blocks.append(cur)
        elif cur is not None:
            m = re.match(r"^(\S+)\s*:", line)
            if m:
                cur.append(m.group(1))
            elif line.startswith(" ") or line.strip() == "":
                pass
            else:
                cur = None
    res = []
    missing = [t for t in theorems if t not in printed]
    for i, t in enumerate(printed):
        ax = blocks[i] if i < len(blocks) else None
        res.append((t, ax))
    for t in missing:
        res.append((t, None))  # a theorem without Print Assumptions is not counted as discharged
    return True, res, log


def axioms_ok(ax):
    return ax is not None and all(a in ALLOWED_AXIOMS or a.split(".")[-1] in ALLOWED_AXIOMS for a in ax)


def coqchk(pid, timeout=1800):
    rc, out = sh(["coqchk", "-silent", "-o", "-Q", "theories", "GoldV", "GoldV.Properties.%s" % pid],
                 cwd=COQ, timeout=timeout)
    return rc == 0, out[-3000:]


# ---------------------------------------------------------------------------------------------
# implementation side / model runner
# ---------------------------------------------------------------------------------------------

def build_harness(release=False, hooks=False, timeout=900):
    env = {}
    if hooks:
        env["RUSTFLAGS"] = "--cfg gold_lsp_verif"
    tdir = os.path.join(HARNESS, "target-hooks" if hooks else "target")
    cmd = ["cargo", "build", "--offline", "--target-dir", tdir]
    if release:
        cmd.append("--release")
    rc, out = sh(cmd, cwd=HARNESS, timeout=timeout, env=env)
    if rc != 0:
        return None, out
    return os.path.join(tdir, "release" if release else "debug", "vharness"), out


def build_model(timeout=900):
    """(Re)extract and compile the OCaml model runner when any model/extraction source is newer."""
    srcs = [os.path.join(EXTRACT, f) for f in os.listdir(EXTRACT) if f.endswith((".ml", ".v", ".sh"))]
    for root, _, files in os.walk(os.path.join(COQ, "theories", "Model")):
        srcs += [os.path.join(root, f) for f in files if f.endswith(".v")]
    for root, _, files in os.walk(os.path.join(COQ, "theories", "Gen")):
        srcs += [os.path.join(root, f) for f in files if f.endswith(".v")]
    newest = max(os.path.getmtime(s) for s in srcs)
    if os.path.exists(VMODEL) and os.path.getmtime(VMODEL) >= newest:
        return True, "up to date"
    ok, log = coq_build(None)  # models must be compiled before extraction
    if not ok:
        return False, log
    rc, out = sh(["sh", os.path.join(EXTRACT, "build.sh")], timeout=timeout)
    return rc == 0, out


def run_lines(binary, engine, cases, shards=NCPU, timeout=1200, extra_args=()):
    """Feed cases (list of str, no newlines) to `binary engine`, sharded; returns list of results
    in order.  A crashed shard yields 'CRASH' results for its unanswered cases."""
    if not cases:
        return []
    shards = max(1, min(shards, (len(cases) + 199) // 200))
    chunks = [cases[i::shards] for i in range(shards)]
    procs = []
    for ch in chunks:
        p = subprocess.Popen([binary, engine, *extra_args], stdin=subprocess.PIPE, stdout=subprocess.PIPE,
                             stderr=subprocess.DEVNULL, text=True)
        procs.append(p)
    import threading
    outs = [None] * shards

    def feed(i):
        try:
            o, _ = procs[i].communicate("\n".join(chunks[i]) + "\n", timeout=timeout)
        except subprocess.TimeoutExpired:
            procs[i].kill()
            o, _ = procs[i].communicate()
            o = (o or "")
        outs[i] = o.split("\n")
        if outs[i] and outs[i][-1] == "":
            outs[i].pop()

    ths = [threading.Thread(target=feed, args=(i,)) for i in range(shards)]
    [t.start() for t in ths]
    [t.join() for t in ths]
    res = [None] * len(cases)
    for i in range(shards):
        for k in range(len(chunks[i])):
            res[i + k * shards] = outs[i][k] if k < len(outs[i]) else "CRASH"
    return res


# ---------------------------------------------------------------------------------------------
# reporting
# ---------------------------------------------------------------------------------------------

def load_known_findings():
    p = os.path.join(VERIF, "known_findings.json")
    if not os.path.exists(p):
        return {"findings": [], "fixed": []}
    return json.load(open(p))


def write_replay(pid, seed, payload):
    os.makedirs(REPLAYS, exist_ok=True)
    h = hashlib.sha1(json.dumps(payload, sort_keys=True, default=str).encode()).hexdigest()[:10]
    path = os.path.join(REPLAYS, "%s-%s-%s.json" % (pid, seed, h))
    payload = dict(payload)
    payload.setdefault("property", pid)
    payload.setdefault("seed", seed)
    payload.setdefault("how_to_rerun", "cd /verif && ./vcheck %s --replay %s" % (pid, path))
    with open(path, "w") as f:
        json.dump(payload, f, indent=1, default=str)
    return path


def write_evidence(pid, tier, seed, coverage, assumptions, wall_s, violations, level="proof"):
    os.makedirs(EVIDENCE, exist_ok=True)
    ev = {
        "property_id": pid, "tier": tier, "seed": seed, "level": level,
        "coverage": coverage, "assumptions": assumptions,
        "wall_s": round(wall_s, 2), "violations": violations,
    }
    with open(os.path.join(EVIDENCE, pid + ".json"), "w") as f:
        json.dump(ev, f, indent=1, default=str)


TRUSTED_BASE = [
    "Coq 8.16.1 kernel (coqc; coqchk in the thorough tier); vm_compute used, native_compute not used",
    "no axioms declared; Print Assumptions of every property theorem audited against an allow-list of stdlib axioms",
    "extraction to OCaml with ExtrOcamlBasic directives only (bool option unit prod list sumbool); ocamlfind ocamlopt 4.13.1; /verif/coq/extract/*.ml drivers",
    "translators under /verif/translators (regex based, cross-validated against the running code)",
    "correspondence harness /verif/harness (includes /repo/src modules by #[path]); generators and canonicalisers in /verif/checks",
    "modelled, not verified: the Rust code re-stated by hand in coq/theories/Model/*.v; Rust std, lsp-server, lsp-types, serde_json assumed to behave as documented",
]
