"""Grammar-directed generator of Gold programs: emits the text together with the tree the grammar
prescribes (kind, name, children) so that checks have an oracle independent of model and parser.
A generated node is a tuple (kind, ident, children); kinds are the Rust struct names."""
import random

KEYWORDS_LOWER = True

OP_LEVELS = [  # lowest precedence first; all left-associative
    ["or", "xor"],
    ["and"],
    ["=", "<>", "<", "<=", ">", ">=", "in", "like"],
    ["<<", ">>"],
    ["bOr", "bXor"],
    ["bAnd"],
    ["+", "-", "&&", "&"],
    ["*", "/", "%"],
]
LEVEL_OF = {op: i for i, ops in enumerate(OP_LEVELS) for op in ops}
PRIMARY = len(OP_LEVELS)          # level of primary expressions
IDENTS = ["a", "b", "x", "y", "Foo", "Bar", "cnt", "self", "aList", "Item", "_z", "v1"]
TYPES = ["int4", "Boolean", "cstring", "tFoo", "aBar", "num8", "Text"]


class Gen:
    def __init__(self, rng, max_depth=3):
        self.r = rng
        self.max_depth = max_depth

    # ---------------- layout ----------------
    def kw(self, w):
        k = self.r.random()
        if k < 0.6:
            return w
        if k < 0.75:
            return w.upper()
        if k < 0.9:
            return w.capitalize()
        return "".join(c.upper() if self.r.random() < 0.5 else c.lower() for c in w)

    def ident(self):
        return self.r.choice(IDENTS)

    # ---------------- expressions ----------------
    # expression AST: ("bin", op, l, r) ("pre", op, e) ("post", op, e) ("id", name) ("lit", text)
    #                 ("call", name, [args]) ("idx", name, e) ("set", [items])
    def gen_expr(self, depth=0):
        r = self.r
        if depth >= self.max_depth or r.random() < 0.3:
            return self.gen_primary(depth)
        op = r.choice(r.choice(OP_LEVELS))
        return ("bin", op, self.gen_expr(depth + 1), self.gen_expr(depth + 1))

    def gen_dot_item(self, depth):
        r = self.r
        k = r.random()
        if k < 0.55 or depth >= self.max_depth:
            return ("id", self.ident())
        if k < 0.85:
            return ("call", r.choice(["Foo", "Bar", "Purge", "get", "DoIt"]),
                    [self.gen_expr(depth + 1) for _ in range(r.randint(0, 3))])
        return ("idx", self.ident(), self.gen_expr(depth + 1))

    def gen_dot_chain(self, depth):
        e = self.gen_dot_item(depth)
        for _ in range(self.r.choice([0, 0, 1, 1, 2, 3])):
            e = ("bin", ".", e, self.gen_dot_item(depth))
        return e

    def gen_literal(self):
        r = self.r
        k = r.random()
        if k < 0.4:
            return ("lit", str(r.randint(0, 999)))
        if k < 0.7:
            return ("lit", "'" + r.choice(["s", "abc", "it''s", "x y", "", "\u00e9t\u00e9", "\u00fc\u00fc\u00fc\u00fc\u00fc\u00fc", "\u65e5\u672c\u8a9e\u65e5\u672c"]) + "'")
        return ("lit", r.choice(["true", "false", "nil", "TRUE", "Nil"]))

    def gen_primary(self, depth):
        r = self.r
        k = r.random()
        if k < 0.45:
            return self.gen_dot_chain(depth)
        if k < 0.7:
            return self.gen_literal()
        if k < 0.8 and depth < self.max_depth:
            return ("pre", r.choice(["not", "bNot", "@", "-", "inherited"]), self.gen_primary(depth + 1))
        if k < 0.86:
            return ("post", r.choice(["++", "--"]), self.gen_dot_chain(depth))
        if k < 0.92 and depth < self.max_depth:
            return ("set", [self.gen_primary(depth + 1) for _ in range(r.randint(0, 3))])
        return self.gen_dot_chain(depth)

    def level(self, e):
        if e[0] == "bin" and e[1] != ".":
            return LEVEL_OF[e[1]]
        return PRIMARY

    def render_expr(self, e, min_level=0, noparen=False):
        """text of e, parenthesised when its level is below min_level (or at random, where a
        primary expression is expected: never inside a dot chain, whose operands are not primaries)."""
        t = e[0]
        if t == "bin" and e[1] == ".":
            s = self.render_expr(e[2], PRIMARY, True) + "." + self.render_expr(e[3], PRIMARY, True)
        elif t == "bin":
            lv = LEVEL_OF[e[1]]
            op = e[1]
            opt = self.kw(op) if op[0].isalpha() else op
            s = self.render_expr(e[2], lv) + " " + opt + " " + self.render_expr(e[3], lv + 1)
            if lv < min_level:
                return "(" + s + ")"
        elif t == "pre":
            op = e[1]
            opt = (self.kw(op) + " ") if op[0].isalpha() else op
            s = opt + self.render_expr(e[2], PRIMARY)
        elif t == "post":
            s = self.render_expr(e[2], PRIMARY, True) + e[1]
        elif t == "id":
            s = e[1]
        elif t == "lit":
            s = e[1]
        elif t == "call":
            s = e[1] + "(" + ", ".join(self.render_expr(a) for a in e[2]) + ")"
        elif t == "idx":
            s = e[1] + "[" + self.render_expr(e[2]) + "]"
        elif t == "set":
            s = "[" + ", ".join(self.render_expr(a, PRIMARY) for a in e[1]) + "]"
        else:
            raise ValueError(e)
        if not noparen and self.level(e) >= min_level and self.r.random() < 0.08 and t not in ("lit",):
            return "(" + s + ")"       # redundant brackets leave the tree unchanged
        return s

    def expected_expr(self, e):
        t = e[0]
        if t == "bin":
            return ("AstBinaryOp", e[1], [self.expected_expr(e[2]), self.expected_expr(e[3])])
        if t in ("pre", "post"):
            return ("AstUnaryOp", e[1], [self.expected_expr(e[2])])
        if t == "id":
            return ("AstTerminal", e[1], [])
        if t == "lit":
            v = e[1]
            if v.startswith("'"):
                v = v[1:-1].replace("''", "'")
            return ("AstTerminal", v, [])
        if t == "call":
            return ("AstMethodCall", e[1], [self.expected_expr(a) for a in e[2]])
        if t == "idx":
            return ("AstArrayAccess", e[1], [("AstTerminal", e[1], []), self.expected_expr(e[2])])
        if t == "set":
            return ("AstSetLiteral", "set_literal", [self.expected_expr(a) for a in e[1]])
        raise ValueError(e)

    # ---------------- types ----------------
    def gen_type(self, depth=0):
        """returns (text, expected node)"""
        r = self.r
        k = r.randrange(12 if depth < 2 else 7)
        b = r.choice(TYPES)
        basic = ("AstTypeBasic", b, [])
        if k == 0:
            return b, basic
        if k == 1:
            n = str(r.randint(1, 99))
            return "%s(%s)" % (b, n), ("AstTypeSized", b, [])
        if k == 2:
            names = ["cA", "cB", "cC"][: r.randint(1, 3)]
            vals = [(" = %d" % i if r.random() < 0.3 else "") for i, _ in enumerate(names)]
            return "(" + ", ".join(n + v for n, v in zip(names, vals)) + ")", \
                ("AstTypeEnum", "type_enum", [("AstEnumVariant", n, []) for n in names])
        if k == 3:
            kwd = r.choice(["refto", "listof"])
            opts = r.choice(["", " [A]", " [P, T]"])
            inv = r.choice(["", " " + self.kw("inverse") + " Back"])
            return self.kw(kwd) + opts + " " + b + inv, ("AstTypeReference", b, [])
        if k == 4:
            lo, hi = r.choice([("1", "10"), ("'a'", "'z'"), ("0", "255")])
            e = lambda v: ("AstTerminal", v.strip("'"), [])
            return "%s %s %s" % (lo, self.kw("to"), hi), ("AstTypeRange", "type_range", [e(lo), e(hi)])
        if k == 5:
            return "[" + b + "]", ("AstTypeSet", b, [basic])
        if k == 6:
            return self.kw("instanceof") + " " + b, ("AstTypeInstanceOf", b, [basic])
        if k == 7:
            return "." + b, ("AstTypePointer", "type_pointer", [basic])
        if k == 8:
            kwd = r.choice(["array", "sequence"])
            idx = r.choice([["tIdx"], ["1 to 5"], ["tIdx", "0 to 9"]])
            kids = []
            for i in idx:
                if " to " in i:
                    lo, hi = i.split(" to ")
                    kids.append(("AstTypeRange", "type_range", [("AstTerminal", lo, []), ("AstTerminal", hi, [])]))
                else:
                    kids.append(("AstTypeBasic", i, []))
            return self.kw(kwd) + "".join("[" + i + "]" for i in idx) + " " + self.kw("of") + " " + b, \
                ("AstTypeArray", "type_array", kids + [basic])
        if k == 9:
            fields = []
            txt = self.kw("record") + r.choice(["", " (tParent)"])
            kids = [("AstTerminal", "tParent", [])] if "(tParent)" in txt else []
            for i in range(r.randint(0, 3)):
                ft, fe = self.gen_type(depth + 1)
                nm = "f%d" % i
                txt += "\n    %s : %s" % (nm, ft)
                kids.append(("AstTypeRecordField", nm, [fe]))
            txt += "\n  " + self.kw("endrecord")
            return txt, ("AstTypeRecord", "type_record", kids)
        if k == 10:
            ptxt, pexp = self.gen_params(depth + 1)
            return self.kw("proc") + ptxt, ("AstTypeProcedure", "type_proc", pexp)
        ptxt, pexp = self.gen_params(depth + 1)
        return self.kw("func") + ptxt + " " + self.kw("return") + " " + b, \
            ("AstTypeFunction", "type_func", pexp + [basic])

    def gen_params(self, depth=0, force=False):
        """returns (text, [param list node] or [])"""
        r = self.r
        if not force and r.random() < 0.35:
            return "", []
        ps, kids = [], []
        for i in range(r.randint(0, 3)):
            nm = r.choice(["A", "B", "Count", "pX", "Val"]) + str(i)
            mod = r.choice(["", "", self.kw("inout") + " ", self.kw("var") + " ", self.kw("const") + " "])
            tt, te = self.gen_type(depth + 1) if depth < 2 else ("int4", ("AstTypeBasic", "int4", []))
            if "\n" in tt:
                tt, te = "int4", ("AstTypeBasic", "int4", [])
            ps.append("%s%s : %s" % (mod, nm, tt))
            kids.append(("AstParameterDeclaration", nm, [te]))
        return "(" + ", ".join(ps) + ")", [("AstParameterDeclarationList", "param_decls", kids)]

    # ---------------- statements ----------------
    def gen_block(self, depth, n=None):
        stmts = [self.gen_stmt(depth) for _ in range(self.r.randint(0, 3) if n is None else n)]
        return stmts

    def gen_stmt(self, depth=0):
        """returns (lines, expected node)"""
        r = self.r
        deep = depth >= self.max_depth
        k = r.randrange(8 if deep else 17)
        ind = "  " * (depth + 1)
        if k == 0:
            l = self.gen_dot_chain(depth + 1)
            op = r.choice(["=", "=", "+=", "-=", ":="])
            e = self.gen_expr(depth + 1)
            return [ind + self.render_expr(l, PRIMARY, True) + " " + op + " " + self.render_expr(e)], \
                ("AstBinaryOp", op, [self.expected_expr(l), self.expected_expr(e)])
        if k == 1:
            c = ("call", r.choice(["DoIt", "Foo", "Purge"]), [self.gen_expr(depth + 1) for _ in range(r.randint(0, 2))])
            if r.random() < 0.5:
                c = ("bin", ".", ("id", self.ident()), c)
            return [ind + self.render_expr(c, PRIMARY, True)], self.expected_expr(c)
        if k == 2:
            nm = r.choice(["i", "tmp", "res", "lst", "buf"]) + str(r.randint(0, 9))
            tt, te = self.gen_type(r.choice([1, 2, 2]))      # depth 1: also procedure / function types (the `proc` keyword inside a body)
            if "\n" in tt:
                tt, te = "int4", ("AstTypeBasic", "int4", [])
            return [ind + self.kw("var") + " " + nm + " : " + tt], ("AstLocalVariableDeclaration", nm, [te])
        if k == 3:
            e = self.gen_expr(depth + 1)
            return [ind + self.kw("return") + " " + self.render_expr(e)], ("AstReturnNode", "return", [self.expected_expr(e)])
        if k == 4:
            w = r.choice(["exit", "break", "continue"])
            t = self.kw(w)
            return [ind + t], ("AstTerminal", t, [])
        if k == 5:
            c = r.choice(["note", "todo x", "", "a = b"])
            return [ind + ";" + c], ("AstComment", "comment", [])
        if k == 6:
            e = self.gen_dot_chain(depth + 1)
            op = r.choice(["++", "--"])
            return [ind + self.render_expr(e, PRIMARY, True) + op], ("AstUnaryOp", op, [self.expected_expr(e)])
        if k == 7:
            nm = "c" + r.choice(["Max", "Name", "K"])
            v = r.choice(["10", "'txt'"])
            return [ind + self.kw("const") + " " + nm + " = " + v], ("AstConstantDeclaration", nm, [])
        if k == 8:     # if / elseif / else
            cond = self.gen_expr(depth + 1)
            lines = [ind + self.kw("if") + " " + self.render_expr(cond)]
            b = self.gen_block(depth + 1)
            for ls, _ in b:
                lines += ls
            blocks = [("AstConditionalBlock", "cond_block", [self.expected_expr(cond)] + [x for _, x in b])]
            for _ in range(r.choice([0, 0, 1, 2])):
                c2 = self.gen_expr(depth + 1)
                lines.append(ind + self.kw("elseif") + " " + self.render_expr(c2))
                b2 = self.gen_block(depth + 1)
                for ls, _ in b2:
                    lines += ls
                blocks.append(("AstConditionalBlock", "cond_block", [self.expected_expr(c2)] + [x for _, x in b2]))
            if r.random() < 0.4:
                lines.append(ind + self.kw("else"))
                b3 = self.gen_block(depth + 1)
                for ls, _ in b3:
                    lines += ls
                blocks.append(("AstConditionalBlock", "cond_block", [x for _, x in b3]))
            lines.append(ind + self.kw("endif"))
            return lines, ("AstIfBlock", "if", blocks)
        if k == 9:     # for
            lo, hi = self.gen_expr(depth + 2), self.gen_expr(depth + 2)
            d = r.choice(["to", "downto"])
            dt = self.kw(d)
            head = ind + self.kw("for") + " i = " + self.render_expr(lo) + " " + dt + " " + self.render_expr(hi)
            kids = [("AstBinaryOp", dt, [self.expected_expr(lo), self.expected_expr(hi)])]
            if r.random() < 0.3:
                st = self.gen_primary(depth + 2)
                head += " " + self.kw("step") + " " + self.render_expr(st)
                kids.append(self.expected_expr(st))
            b = self.gen_block(depth + 1)
            lines = [head] + [l for ls, _ in b for l in ls] + [ind + self.kw("endfor")]
            return lines, ("AstForBlock", "for", kids + [x for _, x in b])
        if k == 10:    # foreach
            coll = self.gen_dot_chain(depth + 2)
            it = ("id", r.choice(["cur", "elem"]))
            intok = self.kw("in")
            head = ind + self.kw("foreach") + " " + it[1] + " " + intok + " " + self.render_expr(coll, PRIMARY, True)
            kids = [("AstBinaryOp", intok, [self.expected_expr(it), self.expected_expr(coll)])]
            if r.random() < 0.25:
                head += " " + self.kw("downto")
            if r.random() < 0.25:
                head += " " + self.kw("using") + " idx"
                kids.append(("AstTerminal", "idx", []))
            b = self.gen_block(depth + 1)
            lines = [head] + [l for ls, _ in b for l in ls] + [ind + self.kw("endfor")]
            return lines, ("AstForEachBlock", "foreach", kids + [x for _, x in b])
        if k == 11:    # while
            cond = self.gen_expr(depth + 1)
            b = self.gen_block(depth + 1)
            lines = [ind + self.kw("while") + " " + self.render_expr(cond)] + [l for ls, _ in b for l in ls] + \
                    [ind + self.kw("endwhile")]
            return lines, ("AstWhileBlock", "while",
                           [("AstConditionalBlock", "cond_block", [self.expected_expr(cond)] + [x for _, x in b])])
        if k == 12:    # loop
            b = self.gen_block(depth + 1)
            lines = [ind + self.kw("loop")] + [l for ls, _ in b for l in ls] + [ind + self.kw("endloop")]
            return lines, ("AstLoopBlock", "loop", [x for _, x in b])
        if k == 13:    # repeat
            b = self.gen_block(depth + 1)
            cond = self.gen_expr(depth + 1)
            lines = [ind + self.kw("repeat")] + [l for ls, _ in b for l in ls] + \
                    [ind + self.kw("until") + " " + self.render_expr(cond)]
            return lines, ("AstRepeatBlock", "repeat",
                           [("AstConditionalBlock", "cond_block", [self.expected_expr(cond)] + [x for _, x in b])])
        if k == 14:    # switch
            se = self.gen_dot_chain(depth + 1)
            lines = [ind + self.kw("switch") + " " + self.render_expr(se, PRIMARY, True)]
            kids = [self.expected_expr(se)]
            for _ in range(r.randint(0, 2)):
                if r.random() < 0.5:
                    vals = [r.choice(["1", "2", "cA", "'x'"]) for _ in range(r.randint(1, 3))]
                    we = ("AstSetLiteral", "set_literal", [("AstTerminal", v.strip("'"), []) for v in vals])
                    wt = ", ".join(vals)
                else:
                    tt = self.kw("to")
                    we = ("AstBinaryOp", tt, [("AstTerminal", "1", []), ("AstTerminal", "9", [])])
                    wt = "1 " + tt + " 9"
                b = self.gen_block(depth + 1)
                lines += [ind + " " + self.kw("when") + " " + wt] + [l for ls, _ in b for l in ls] + [ind + " " + self.kw("endwhen")]
                kids.append(("AstWhenBlock", "when_block", [we] + [x for _, x in b]))
            if r.random() < 0.4:
                b = self.gen_block(depth + 1)
                lines += [ind + " " + self.kw("else")] + [l for ls, _ in b for l in ls]
                kids.append(("AstWhenBlock", "when_block", [x for _, x in b]))
            lines.append(ind + self.kw("endswitch"))
            return lines, ("AstSwitchBlock", "switch", kids)
        if k == 15:    # oql select
            return self.gen_oql_select(ind, depth)
        return self.gen_oql_fetch(ind, depth)

    def gen_oql_select(self, ind, depth):
        r = self.r
        txt = self.kw("oql") + " " + self.kw("select")
        kids = []
        if r.random() < 0.3:
            txt += " " + self.kw("top") + " 5"
            kids.append(("AstTerminal", "5", []))
        if r.random() < 0.3:
            txt += " " + self.kw("distinct")
        items = []
        for _ in range(r.randint(1, 3)):
            k = r.random()
            if k < 0.2:
                items.append(("*", ("AstTerminal", "*", [])))
            elif k < 0.35:
                items.append(("OQLCount(*)", ("AstMethodCall", "OQLCount", [("AstTerminal", "*", [])])))
            else:
                e = ("bin", ".", ("id", "x"), ("id", r.choice(["Name", "Id", "Val"])))
                items.append((self.render_expr(e, PRIMARY, True), self.expected_expr(e)))
        txt += " " + ", ".join(t for t, _ in items)
        kids += [e for _, e in items]
        txt += " " + self.kw("from")
        froms = []
        for i in range(r.randint(1, 2)):
            pre = ""
            if r.random() < 0.2:
                pre += self.kw("conditional") + " "
            if r.random() < 0.2:
                pre += self.kw("allversionsof") + " "
            if r.random() < 0.2:
                pre += self.kw("phantomstoo") + " "
            al = "x" if i == 0 else "y"
            cls = r.choice(["aFoo", "aBar"])
            t = pre + al + " " + self.kw("in") + " " + cls + r.choice(["", "++"])
            fk = [("AstTerminal", cls, [])]
            if r.random() < 0.2:
                jn = r.choice(["outerjoinon", "leftOuterJoinOn"])
                t += " " + jn + " x.Id = y.Id"
                fk.append(("AstOQLJoin", jn, [("AstBinaryOp", "=", [
                    ("AstBinaryOp", ".", [("AstTerminal", "x", []), ("AstTerminal", "Id", [])]),
                    ("AstBinaryOp", ".", [("AstTerminal", "y", []), ("AstTerminal", "Id", [])])])]))
            froms.append((t, ("AstOQLFromNode", al, fk)))
        txt += " " + ", ".join(t for t, _ in froms)
        kids += [e for _, e in froms]
        if r.random() < 0.5:
            w = self.gen_expr(depth + 2)
            txt += " " + self.kw("where") + " " + self.render_expr(w)
            kids.append(self.expected_expr(w))
        if r.random() < 0.3:
            e = ("bin", ".", ("id", "x"), ("id", "Name"))
            d = r.random() < 0.5
            txt += " " + self.kw("order") + " " + self.kw("by") + " " + self.render_expr(e, PRIMARY, True) + (" " + self.kw("descending") if d else "")
            kids.append(("AstOQLOrderBy", "oql_order_by_node", [self.expected_expr(e)]))
        if r.random() < 0.3:
            txt += " " + self.kw("using") + " cur"
            kids.append(("AstTerminal", "cur", []))
        return [ind + txt], ("AstOQLSelect", "oql_select", kids)

    def gen_oql_fetch(self, ind, depth):
        r = self.r
        txt = self.kw("oql") + " " + self.kw("fetch") + " " + self.kw("into")
        items = [("bin", ".", ("id", "self"), ("id", r.choice(["A", "B", "C"]))) for _ in range(r.randint(1, 3))]
        txt += " " + ", ".join(self.render_expr(e, PRIMARY, True) for e in items)
        kids = [self.expected_expr(e) for e in items]
        if r.random() < 0.5:
            txt += " " + self.kw("using") + " cur"
            kids.append(("AstTerminal", "cur", []))
        return [ind + txt], ("AstOQLFetch", "oql_fetch", kids)

    # ---------------- declarations ----------------
    def gen_method(self, name=None, force_body=True, nstmts=None):
        """returns (lines, expected node, info dict)"""
        r = self.r
        is_func = r.random() < 0.4
        name = name or r.choice(["Init", "DoWork", "Compute", "Terminate", "helper", "GetX", "SetY", "Run"]) + str(r.randint(0, 99))
        event = ""
        ptxt, pexp = self.gen_params()
        head = self.kw("func" if is_func else "proc") + " " + name + ptxt
        name_node = ("AstTerminal", name, [])
        if r.random() < 0.08:
            head = head.replace(name, name + "#Clicked", 1)
            name_node = ("AstMethodNameWithEvent", name + "#Clicked", [("AstTerminal", name, []), ("AstTerminal", "Clicked", [])])
        kids = [name_node]
        if is_func:
            rt = r.choice(TYPES)
            head += " " + self.kw("return") + " " + rt
            kids.append(("AstTypeBasic", rt, []))
        kids += pexp
        mods = []
        for m in ["private", "protected", "final", "override"]:
            if r.random() < 0.15:
                mods.append(self.kw(m))
        nobody = False
        if not force_body and r.random() < 0.15:
            if r.random() < 0.5:
                mods.append(self.kw("forward"))
            else:
                mods.append(self.kw("external") + " 'my.dll'")
            nobody = True
        if mods:
            head += " " + " ".join(mods)
        lines = [head]
        ident = name_node[1]
        kind = "AstFunction" if is_func else "AstProcedure"
        if nobody:
            return lines, (kind, ident, kids), dict(name=ident, is_func=is_func, nobody=True)
        body = self.gen_block(0, nstmts if nstmts is not None else r.randint(0, 5))
        for ls, _ in body:
            lines += ls
        endkw = ("endfunc" if is_func else "endproc") if r.random() < 0.85 else "end"
        lines.append(self.kw(endkw))
        if body:
            kids.append(("AstMethodBody", "method_body", [x for _, x in body]))
        else:
            kids.append(("AstMethodBody", "method_body", []))
        return lines, (kind, ident, kids), dict(name=ident, is_func=is_func, nobody=False, header=head)

    def gen_decl(self):
        """one non-method top-level declaration: (lines, expected node)"""
        r = self.r
        k = r.randrange(5)
        if k == 0:
            nm = "c" + r.choice(["Max", "Name", "Limit"]) + str(r.randint(0, 99))
            v = r.choice(["10", "'txt'", "3.14"])
            ml = " " + self.kw("multilang") if r.random() < 0.2 else ""
            return [self.kw("const") + " " + nm + " = " + v + ml], ("AstConstantDeclaration", nm, [])
        if k == 1:
            nm = "t" + r.choice(["Kind", "Rec", "Ref", "Arr"]) + str(r.randint(0, 99))
            tt, te = self.gen_type()
            return [self.kw("type") + " " + nm + " : " + tt], ("AstTypeDeclaration", nm, [te])
        if k == 2:
            nm = r.choice(["Field", "Owner", "Items", "Count"]) + str(r.randint(0, 99))
            tt, te = self.gen_type(1)
            pre = self.kw("memory") + " " if r.random() < 0.15 else ""
            mods = "".join(" " + self.kw(m) for m in ["private", "protected", "final", "override"] if r.random() < 0.12)
            kids = [te]
            ab = ""
            if r.random() < 0.1:
                ab = " " + self.kw("absolute") + " Other"
                kids.append(("AstTerminal", "Other", []))
            return [pre + nm + " : " + tt + mods + ab], ("AstGlobalVariableDeclaration", nm, kids)
        if k == 3:
            return [";" + r.choice(["section", "", "note: x"])], ("AstComment", "comment", [])
        us = r.sample(["aBase", "aUtil", "WFCore", "aOther"], r.randint(1, 3))
        return [self.kw("uses") + " " + ", ".join(us)], ("AstUses", "uses", [])

    def gen_program(self, n_decls=None, header=None):
        """returns (text, expected root children, methods info)"""
        r = self.r
        lines, kids, methods = [], [], []
        header = header if header is not None else r.choice(["class", "class", "classp", "module", "none"])
        cname = "a" + r.choice(["Thing", "Widget", "Acct"]) + str(r.randint(0, 99))
        if header == "class":
            lines.append(self.kw("class") + " " + cname)
            kids.append(("AstClass", cname, []))
        elif header == "classp":
            lines.append(self.kw("class") + " " + cname + " (aBase)")
            kids.append(("AstClass", cname, []))
        elif header == "module":
            lines.append(self.kw("module") + " " + cname)
            kids.append(("AstModule", cname, []))
        for _ in range(n_decls if n_decls is not None else r.randint(0, 8)):
            if r.random() < 0.45:
                ls, e, info = self.gen_method(force_body=False)
                info["first_line"] = len(lines)
                info["n_lines"] = len(ls)
                methods.append(info)
            else:
                ls, e = self.gen_decl()
            lines += ls
            kids.append(e)
            if r.random() < 0.3:
                lines.append("")
        nl = "\r\n" if r.random() < 0.2 else "\n"
        return nl.join(lines) + nl, kids, methods


def shape_of_dump(dump, kinds):
    """parse the s-expression tree dump into (kind name, ident string, children, raw fields)."""
    pos = 0
    n = len(dump)

    def node():
        nonlocal pos
        assert dump[pos] == "(", dump[pos:pos + 30]
        pos += 1
        j = dump.index("{", pos)
        head = dump[pos:j].split()
        k = dump.index("}", j)
        attrs = dump[j + 1:k]
        pos = k + 1
        kids = []
        while dump[pos] == " ":
            pos += 1
            if dump[pos] == "(":
                kids.append(node())
        assert dump[pos] == ")"
        pos += 1
        ident = "" if head[1] == "-" else "".join(chr(int(x)) for x in head[1].split("."))
        return (kinds[int(head[0])], ident, kids, dict(raw=int(head[2]), range=tuple(map(int, head[3:7])), attrs=attrs))
    return node()
