"""Generic per-property driver: obligations + audit + correspondence + evidence."""
import importlib, json, os, sys, time, traceback
from . import core


class Ctx:
    def __init__(self, pid, tier, seed):
        self.pid, self.tier, self.seed = pid, tier, seed
        self.quick = tier == "quick"
        self.notes = []
        self.known_printed = []
        self.kf = core.load_known_findings()

    def known(self, what):
        line = "KNOWN-FINDING: property=%s %s" % (self.pid, what)
        if line not in self.known_printed:
            self.known_printed.append(line)
            print(line, flush=True)

    def open_findings(self):
        return [f for f in self.kf.get("findings", []) if f.get("property") == self.pid]


def report_violation(ctx, what, payload, found_input):
    payload = dict(payload)
    payload["what"] = what
    path = core.write_replay(ctx.pid, ctx.seed, payload)
    tail = "" if found_input else " no-failing-input-found"
    print("VIOLATION property=%s replay=%s%s" % (ctx.pid, path, tail), flush=True)
    return path


def main(argv):
    import argparse
    ap = argparse.ArgumentParser()
    ap.add_argument("pid")
    ap.add_argument("--tier", default=os.environ.get("VERIF_TIER", "quick"))
    ap.add_argument("--replay")
    ap.add_argument("--skip-proof", action="store_true", help="debugging only; never registered")
    a = ap.parse_args(argv)
    seed = int(os.environ.get("VERIF_SEED", "1"))
    pid = a.pid.upper()
    tier = "thorough" if a.tier.startswith("t") else "quick"
    ctx = Ctx(pid, tier, seed)
    # /repo is read by path (harness, translators, binary build): hold a shared lock while a check runs so that
    # tools/seedcheck.sh (exclusive lock) never has a seeded change applied underneath a running check
    if not os.environ.get("VERIF_REPO_LOCK_HELD"):
        try:
            import fcntl
            _lk = open("/tmp/gold-verif-repo.lock", "a")
            fcntl.flock(_lk, fcntl.LOCK_SH)
            ctx._repo_lock = _lk
        except Exception:
            pass
    mod = importlib.import_module("checks." + pid.lower())
    t0 = time.time()
    violations = 0
    coverage = {}

    if a.replay:
        return mod.replay(ctx, json.load(open(a.replay)))

    # 1. translators: regenerate the tables the proofs are about from the current sources
    broken = []
    for (t, ok, msg) in core.run_translators():
        if not ok:
            broken.append("translator %s failed: %s" % (t, msg))

    # 2. proof obligations of this property, re-checked on every run
    obligations, discharged, per_thm = [], 0, {}
    if not a.skip_proof:
        ok, res, log = core.property_obligations(pid)
        for (t, ax) in res:
            obligations.append(t)
            per_thm[t] = ax
            if ok and core.axioms_ok(ax):
                discharged += 1
        if not ok:
            # name the first failing file / error
            err = [l for l in log.split("\n") if l.startswith("File ") or l.startswith("Error")][:4]
            broken.append("proof obligations of %s no longer check: %s" % (pid, " | ".join(err)))
        elif discharged != len(obligations):
            bad = [t for t in obligations if not core.axioms_ok(per_thm[t])]
            broken.append("theorems with non-allow-listed or missing assumptions: %s" % bad)
        bad = core.audit_sources()
        if bad:
            broken.append("forbidden declarations in the development: %s" % bad[:5])
        if tier == "thorough" and ok:
            okc, out = core.coqchk(pid)
            coverage["coqchk"] = out[-1500:]
            if not okc:
                broken.append("coqchk failed: " + out[-500:])

    # 3. correspondence between model and implementation (also the failing-input search)
    try:
        cov = mod.correspondence(ctx, broken_obligations=broken)
        coverage.update(cov or {})
    except core.Violation as v:
        violations += 1
        coverage.update(getattr(v, "coverage", {}) or {})
        print("VIOLATION property=%s replay=%s%s" % (pid, v.replay, "" if v.found_input else " no-failing-input-found"), flush=True)
    except Exception:
        violations += 1
        tb = traceback.format_exc()
        path = core.write_replay(pid, seed, {"broken": "check machinery raised an exception", "traceback": tb})
        print(tb, file=sys.stderr)
        print("VIOLATION property=%s replay=%s no-failing-input-found" % (pid, path), flush=True)

    if broken and violations == 0:
        # the tie or a proof is broken and the search found no failing input
        violations += 1
        path = core.write_replay(pid, seed, {"broken": broken, "note": "no failing input found by the targeted search"})
        print("VIOLATION property=%s replay=%s no-failing-input-found" % (pid, path), flush=True)

    coverage.setdefault("obligations", len(obligations))
    coverage.setdefault("discharged", discharged)
    coverage["theorems"] = {t: (per_thm[t] if per_thm[t] is not None else "NOT CHECKED") for t in obligations}
    coverage.setdefault("checker_cmd", "make -C /verif/coq theories/Properties/%s.vo (coqc 8.16.1, full .vo build) + Print Assumptions audit%s" % (pid, "; coqchk -o" if tier == "thorough" else ""))
    coverage.setdefault("trusted_base", core.TRUSTED_BASE)
    coverage["known_findings_reported"] = ctx.known_printed
    coverage["broken"] = broken
    core.write_evidence(pid, tier, seed, coverage, getattr(mod, "ASSUMPTIONS", []), time.time() - t0, violations)
    return 1 if violations else 0
