"""Black-box LSP client for the real `gold-lang-lsp --stdio` binary (engine E-bb).
The binary is rebuilt from /repo's current working tree into a target dir under /verif/harness."""
import json, os, queue, subprocess, threading, time
from . import core

BIN_TARGET = os.path.join(core.HARNESS, "target-repo")


def build_server(timeout=900):
    rc, out = core.sh(["cargo", "build", "--offline", "--manifest-path", "/repo/Cargo.toml", "--target-dir", BIN_TARGET],
                      timeout=timeout)
    if rc != 0:
        raise RuntimeError("cargo build of /repo failed:\n" + out[-3000:])
    return os.path.join(BIN_TARGET, "debug", "gold-lang-lsp")


def frame(obj):
    body = json.dumps(obj).encode("utf-8")
    return b"Content-Length: %d\r\n\r\n" % len(body) + body


def file_uri(path):
    from urllib.parse import quote
    return "file://" + quote(os.path.abspath(path))


class Session:
    """One server process.  send() never waits; responses are collected by a reader thread."""

    def __init__(self, binary, root_dir):
        self.proc = subprocess.Popen([binary, "--stdio"], stdin=subprocess.PIPE, stdout=subprocess.PIPE,
                                     stderr=subprocess.PIPE, cwd=root_dir)
        self.responses = []          # decoded JSON messages from the server, in arrival order
        self.stderr = []
        self.lock = threading.Lock()
        self.cv = threading.Condition(self.lock)
        self.closed = False
        self._t1 = threading.Thread(target=self._read_stdout, daemon=True)
        self._t2 = threading.Thread(target=self._read_stderr, daemon=True)
        # writes go through a thread: a server that stops reading its input (a blocked main loop) must show up as
        # missing responses, not block the check
        self._outbox = queue.Queue()
        self._t3 = threading.Thread(target=self._write_stdin, daemon=True)
        self._t1.start()
        self._t2.start()
        self._t3.start()

    def _write_stdin(self):
        while True:
            data = self._outbox.get()
            if data is None:
                try:
                    self.proc.stdin.close()
                except Exception:
                    pass
                return
            try:
                self.proc.stdin.write(data)
                self.proc.stdin.flush()
            except Exception:
                return

    def _read_stdout(self):
        f = self.proc.stdout
        try:
            while True:
                length = None
                while True:
                    line = f.readline()
                    if not line:
                        raise EOFError
                    line = line.strip()
                    if not line:
                        break
                    if line.lower().startswith(b"content-length:"):
                        length = int(line.split(b":")[1])
                if length is None:
                    continue
                body = f.read(length)
                msg = json.loads(body.decode("utf-8"))
                with self.cv:
                    self.responses.append(msg)
                    self.cv.notify_all()
        except Exception:
            pass
        with self.cv:
            self.closed = True
            self.cv.notify_all()

    def _read_stderr(self):
        try:
            for line in self.proc.stderr:
                self.stderr.append(line.decode("utf-8", "replace"))
                if len(self.stderr) > 20000:
                    del self.stderr[:10000]
        except Exception:
            pass

    def send(self, obj):
        self._outbox.put(frame(obj))
        return True

    def request(self, id_, method, params):
        return self.send({"jsonrpc": "2.0", "id": id_, "method": method, "params": params})

    def notify(self, method, params):
        return self.send({"jsonrpc": "2.0", "method": method, "params": params})

    def wait_response(self, id_, timeout=20.0):
        end = time.time() + timeout
        with self.cv:
            while True:
                for m in self.responses:
                    if m.get("id") == id_ and ("result" in m or "error" in m):
                        return m
                if self.closed:
                    return None
                left = end - time.time()
                if left <= 0:
                    return None
                self.cv.wait(left)

    def initialize(self, root_dir, timeout=30.0):
        self.request(0, "initialize", {"processId": None, "rootUri": file_uri(root_dir), "capabilities": {}})
        r = self.wait_response(0, timeout)
        self.notify("initialized", {})
        return r

    def shutdown_exit(self, shutdown_id, timeout=30.0):
        """returns (shutdown response or None, exit status or None when it had to be killed)"""
        self.request(shutdown_id, "shutdown", None)
        r = self.wait_response(shutdown_id, timeout)
        self.notify("exit", None)
        self._outbox.put(None)
        try:
            rc = self.proc.wait(timeout)
        except subprocess.TimeoutExpired:
            self.proc.kill()
            self.proc.wait()
            rc = None
        self._t1.join(2)
        return r, rc

    def kill(self):
        self._outbox.put(None)
        try:
            self.proc.kill()
            self.proc.wait()
        except Exception:
            pass

    def panicked(self):
        return any("panicked" in l for l in self.stderr)
